package main

import (
	"fmt"
	"go/token"
	"go/types"
	"sort"
	"strings"

	"golang.org/x/tools/go/ssa"
)

// ---- may-return-nil and nil-implies-error summaries ------------------------------------------

type nilSummaries struct {
	mayNil     map[*ssa.Function]bool // some return yields a nil pointer/interface/slice
	nilIsError map[*ssa.Function]bool // every nil-yielding return is reached only after an error was recorded
	falseIsErr map[*ssa.Function]bool // bool functions: every `return false` is reached only after an error was recorded
}

func isNilConst(v ssa.Value) bool {
	k, ok := v.(*ssa.Const)
	return ok && k.IsNil()
}

func isFalseConst(v ssa.Value) bool {
	k, ok := v.(*ssa.Const)
	return ok && k.Value != nil && k.Value.String() == "false"
}

func nodeLike(t types.Type) bool {
	switch u := t.Underlying().(type) {
	case *types.Pointer:
		n := namedOf(u)
		return n != nil && n.Obj().Pkg() != nil && n.Obj().Pkg().Path() == modPath+"/ast"
	case *types.Interface:
		n := namedOf(t)
		return n != nil && n.Obj().Pkg() != nil && n.Obj().Pkg().Path() == modPath+"/ast"
	case *types.Slice:
		return nodeLike(u.Elem())
	}
	return false
}

// cleanAt computes, for function f, the set of blocks whose ENTRY is reachable on a path on which no error has been
// recorded ("clean"), using edge refinements from calls with falseIsErr / nilIsError summaries.
type cleanInfo struct {
	entryClean map[*ssa.BasicBlock]bool
}

func (ns *nilSummaries) cleanPaths(a *parserAnchors, f *ssa.Function) *cleanInfo {
	ci := &cleanInfo{entryClean: map[*ssa.BasicBlock]bool{}}
	if len(f.Blocks) == 0 {
		return ci
	}
	work := []*ssa.BasicBlock{f.Blocks[0]}
	ci.entryClean[f.Blocks[0]] = true
	for len(work) > 0 {
		b := work[len(work)-1]
		work = work[:len(work)-1]
		clean := true
		for _, in := range b.Instrs {
			if call, ok := in.(*ssa.Call); ok && a.errRecorders[call.Call.StaticCallee()] {
				clean = false
			}
		}
		if !clean {
			continue
		}
		for i, s := range b.Succs {
			if ns.edgeImpliesError(a, b, i) {
				continue
			}
			if !ci.entryClean[s] {
				ci.entryClean[s] = true
				work = append(work, s)
			}
		}
	}
	return ci
}

// cleanBefore reports whether instruction in (in block b) can be reached without an error recorded.
func (ci *cleanInfo) cleanBefore(a *parserAnchors, in ssa.Instruction) bool {
	b := in.Block()
	if !ci.entryClean[b] {
		return false
	}
	for _, x := range b.Instrs {
		if x == in {
			return true
		}
		if call, ok := x.(*ssa.Call); ok && a.errRecorders[call.Call.StaticCallee()] {
			return false
		}
	}
	return true
}

// edgeImpliesError: taking edge i out of b implies an error has been recorded (false result of an expect-like call,
// or nil result of a call whose nil results are all error-recorded).
func (ns *nilSummaries) edgeImpliesError(a *parserAnchors, b *ssa.BasicBlock, i int) bool {
	at, ok := a.edgeAtom(b, i)
	if !ok {
		return false
	}
	switch at.kind {
	case atCall:
		// edge on which the call returned false
		if at.neg {
			return ns.falseIsErr[at.call.Call.StaticCallee()]
		}
	case atNil:
		// edge on which value == nil
		if !at.neg {
			val := at.val
			// a field of the node under construction, read back right after it was assigned the call's result
			if u, ok := val.(*ssa.UnOp); ok && u.Op == token.MUL {
				if fa, ok := u.X.(*ssa.FieldAddr); ok {
					if al, ok := fa.X.(*ssa.Alloc); ok {
						var stored ssa.Value
						n := 0
						for _, r := range *al.Referrers() {
							fa2, ok := r.(*ssa.FieldAddr)
							if !ok || fa2.Field != fa.Field {
								continue
							}
							for _, r2 := range *fa2.Referrers() {
								if st, ok := r2.(*ssa.Store); ok && st.Addr == ssa.Value(fa2) {
									n++
									if instrDominates(st, u) {
										stored = st.Val
									}
								}
							}
						}
						if n == 1 && stored != nil {
							val = stored
						}
					}
				}
			}
			if call, ok := val.(*ssa.Call); ok {
				return ns.nilIsError[call.Call.StaticCallee()]
			}
			if ex, ok := val.(*ssa.Extract); ok {
				if call, ok := ex.Tuple.(*ssa.Call); ok {
					return ns.nilIsError[call.Call.StaticCallee()]
				}
			}
		}
	}
	return false
}

func (c *Ctx) nilSummaries(a *parserAnchors) *nilSummaries {
	ns := &nilSummaries{mayNil: map[*ssa.Function]bool{}, nilIsError: map[*ssa.Function]bool{}, falseIsErr: map[*ssa.Function]bool{}}
	fns := c.libFunctions("parser")
	// may-return-nil: least fixpoint
	for changed := true; changed; {
		changed = false
		for _, f := range fns {
			if ns.mayNil[f] {
				continue
			}
			allInstrs(f, func(_ *ssa.BasicBlock, _ int, in ssa.Instruction) {
				r, ok := in.(*ssa.Return)
				if !ok {
					return
				}
				for _, v := range r.Results {
					if !nodeLike(v.Type()) {
						continue
					}
					if returnsNilValue(ns, v, map[ssa.Value]bool{}) && !ns.mayNil[f] {
						ns.mayNil[f] = true
						changed = true
					}
				}
			})
		}
	}
	// nil-is-error / false-is-error: greatest fixpoint (assume, then refute)
	for _, f := range fns {
		ns.nilIsError[f] = true
		if f.Signature.Results().Len() == 1 {
			if b, ok := f.Signature.Results().At(0).Type().Underlying().(*types.Basic); ok && b.Kind() == types.Bool {
				ns.falseIsErr[f] = true
			}
		}
	}
	for changed := true; changed; {
		changed = false
		for _, f := range fns {
			ci := ns.cleanPaths(a, f)
			allInstrs(f, func(_ *ssa.BasicBlock, _ int, in ssa.Instruction) {
				r, ok := in.(*ssa.Return)
				if !ok {
					return
				}
				for _, v := range r.Results {
					if ns.nilIsError[f] && nodeLike(v.Type()) {
						for _, org := range nilOrigins(ns, v) {
							if org.cleanNil(ns, a, ci, r) {
								ns.nilIsError[f] = false
								changed = true
							}
						}
					}
					if ns.falseIsErr[f] && isFalseConst(v) && ci.cleanBefore(a, r) {
						ns.falseIsErr[f] = false
						changed = true
					}
				}
			})
			// a computed bool result (`return terminated`, a variable merged from several assignments): decided path by
			// path — every way the result can be false must have recorded an error on that path
			if ns.falseIsErr[f] && hasComputedBoolResult(f) {
				refuted := false
				complete := a.enumPaths(f.Blocks[0], func(facts []pathFact, blocks []*ssa.BasicBlock, last *ssa.BasicBlock) {
					r, ok := last.Instrs[len(last.Instrs)-1].(*ssa.Return)
					if !ok || len(r.Results) != 1 || refuted {
						return
					}
					if _, isK := r.Results[0].(*ssa.Const); isK {
						return // handled above
					}
					for _, ra := range a.returnAlternatives(r.Results[0], facts, blocks, last) {
						if ra.val {
							continue
						}
						recorded := false
						for _, blk := range blocks {
							for _, call := range callsIn(blk) {
								if a.errRecorders[call.Call.StaticCallee()] {
									recorded = true
								}
							}
						}
						for _, pf := range ra.facts {
							if pf.at.kind == atCall && pf.at.neg && pf.at.call != nil && ns.falseIsErr[pf.at.call.Call.StaticCallee()] {
								recorded = true
							}
						}
						if !recorded {
							refuted = true
						}
					}
				})
				if refuted || !complete {
					ns.falseIsErr[f] = false
					changed = true
				}
			}
		}
	}
	return ns
}

func hasComputedBoolResult(f *ssa.Function) bool {
	if f.Signature.Results().Len() != 1 {
		return false
	}
	if b, ok := f.Signature.Results().At(0).Type().Underlying().(*types.Basic); !ok || b.Kind() != types.Bool {
		return false
	}
	found := false
	allInstrs(f, func(_ *ssa.BasicBlock, _ int, in ssa.Instruction) {
		if r, ok := in.(*ssa.Return); ok && len(r.Results) == 1 {
			if _, isK := r.Results[0].(*ssa.Const); !isK {
				found = true
			}
		}
	})
	return found
}

func returnsNilValue(ns *nilSummaries, v ssa.Value, seen map[ssa.Value]bool) bool {
	if seen[v] {
		return false
	}
	seen[v] = true
	switch x := v.(type) {
	case *ssa.Const:
		return x.IsNil()
	case *ssa.Phi:
		for _, e := range x.Edges {
			if returnsNilValue(ns, e, seen) {
				return true
			}
		}
	case *ssa.Call:
		if cal := x.Call.StaticCallee(); cal != nil {
			if nilConverter(cal) != nil && len(x.Call.Args) == 1 {
				return returnsNilValue(ns, x.Call.Args[0], seen)
			}
			return ns.mayNil[cal]
		}
	case *ssa.MakeInterface:
		return false // a typed nil is not a nil interface; R11.1 handles it
	case *ssa.UnOp:
		for _, st := range cellStores(x) {
			if returnsNilValue(ns, st.Val, seen) {
				return true
			}
		}
	}
	return false
}

// cellStores: all stores into the local cell that v loads from (defer-spilled results, captured variables).
func cellStores(v ssa.Value) []*ssa.Store {
	u, ok := v.(*ssa.UnOp)
	if !ok || u.Op != token.MUL {
		return nil
	}
	al, ok := u.X.(*ssa.Alloc)
	if !ok {
		return nil
	}
	var out []*ssa.Store
	for _, r := range *al.Referrers() {
		if st, ok := r.(*ssa.Store); ok && st.Addr == al {
			out = append(out, st)
		}
	}
	return out
}

// nilOrigin: one way a returned value can be nil.
type nilOrigin struct {
	konst bool // the nil constant itself (directly or through a phi edge from block pred)
	pred  *ssa.BasicBlock
	store *ssa.Store // nil stored into a result cell at this instruction
	call  *ssa.Call  // nil propagated from this call's result
}

func nilOrigins(ns *nilSummaries, v ssa.Value) []nilOrigin {
	return nilOriginsSeen(ns, v, map[ssa.Value]bool{})
}

func nilOriginsSeen(ns *nilSummaries, v ssa.Value, seen map[ssa.Value]bool) []nilOrigin {
	if seen[v] {
		return nil // a loop-carried value: its other edges are visited on the first encounter
	}
	seen[v] = true
	switch x := v.(type) {
	case *ssa.Const:
		if x.IsNil() {
			return []nilOrigin{{konst: true}}
		}
	case *ssa.Phi:
		var out []nilOrigin
		for i, e := range x.Edges {
			for _, o := range nilOriginsSeen(ns, e, seen) {
				if o.konst && o.pred == nil {
					o.pred = x.Block().Preds[i]
				}
				out = append(out, o)
			}
		}
		return out
	case *ssa.Call:
		if cal := x.Call.StaticCallee(); cal != nil && nilConverter(cal) != nil && len(x.Call.Args) == 1 {
			// nil exactly when its argument is
			return nilOriginsSeen(ns, x.Call.Args[0], seen)
		}
		if cal := x.Call.StaticCallee(); cal != nil && ns.mayNil[cal] {
			return []nilOrigin{{call: x}}
		}
	case *ssa.UnOp:
		var out []nilOrigin
		for _, st := range cellStores(x) {
			for _, o := range nilOriginsSeen(ns, st.Val, seen) {
				if o.konst && o.pred == nil && o.store == nil {
					o.store = st
				}
				out = append(out, o)
			}
		}
		return out
	}
	return nil
}

// cleanNil: can this nil reach the return r without an error having been recorded?
func (o nilOrigin) cleanNil(ns *nilSummaries, a *parserAnchors, ci *cleanInfo, r *ssa.Return) bool {
	if o.call != nil {
		// nil propagated from a callee: error-recorded iff the callee's nils are
		return !ns.nilIsError[o.call.Call.StaticCallee()] && ci.cleanBefore(a, r)
	}
	if o.store != nil {
		return ci.cleanBefore(a, o.store)
	}
	if o.pred != nil {
		// nil constant flowing in from predecessor block pred: clean iff pred's exit is clean
		if !ci.entryClean[o.pred] {
			return false
		}
		for _, x := range o.pred.Instrs {
			if call, ok := x.(*ssa.Call); ok && a.errRecorders[call.Call.StaticCallee()] {
				return false
			}
		}
		// and the edge pred -> phi block does not itself imply an error
		for i, s := range o.pred.Succs {
			if s == r.Block() || true {
				_ = i
			}
		}
		return true
	}
	return ci.cleanBefore(a, r)
}

// ---------------------------------------------------------------------------------------------

func init() {
	register("C11", &propSpec{
		run: runC11,
		explanation: "Error-contract discipline of package parser decided on every path (SSA): " +
			"R11.1 no typed nil pointer enters a Statement/Expression/Node interface slot: every conversion of a may-be-nil node pointer to an ast interface is dominated by a nil test of that pointer (otherwise the statement loops' `stmt != nil` filter is ineffective and a nil entry reaches a statement list); " +
			"R11.2 every nil-valued return of a node pointer/interface/slice is reached only after an error was recorded (directly, through the false edge of an expect call, or through the nil edge of a callee with the same summary — summaries are verified, not assumed); " +
			"R11.4 ParseProgram returns a non-nil error exactly on the branch where the error list is non-empty, a non-nil program on every path; only the constructor and the single error constructor write the error list (append only); only that function builds ParserError values, with the range {tok.Start, tok.End} of one token parameter; every caller passes the parser's current or peek token. " +
			"R11.6 also covers the statement-list loops (program, block): every way round such a loop passes a NextToken of the loop itself, so a statement parser that fails without consuming anything cannot make the parser spin. " +
			"A pass means every enumerated obligation is discharged on the current source; termination and absence of panics for all inputs are covered only as far as R11.5/R11.6 are armed (see rules list).",
		notDecided: []string{"stack exhaustion on deeply nested input", "errors added by plugins", "termination/panic-freedom beyond the enumerated obligations"},
	})
}

func runC11(c *Ctx) {
	a := c.parserAnchors()
	c.rule("R11.0", "anchors of package parser (token fields, error list, error constructor, expect functions)")
	for _, p := range a.problems {
		c.unres("anchors", token.NoPos, "%s", p)
	}
	if a.addErrAt == nil {
		return
	}
	c.ok("anchors", a.addErrAt.Pos(), "error constructor %s; recorders %d", fnName(a.addErrAt), len(a.errRecorders))
	ns := c.nilSummaries(a)
	var mn []string
	for f, v := range ns.mayNil {
		if v {
			mn = append(mn, fnName(f))
		}
	}
	sort.Strings(mn)
	c.Tables["may_return_nil"] = mn
	r11_1(c, a, ns, "R11.1")
	r11_2(c, a, ns, "R11.2")
	r11_4(c, a)
	t := c.tables()
	if !c.extractorProblems(t, "lexemes", "parser", "printer") {
		g := c.grammar(t)
		c.rule("R11.3", "mandatory children are assigned: every child field a printer dereferences without a nil test is filled with a sub-parse on every success path of the parse method that builds the node")
		c.floor(25)
		ruleTokenOrder(c, t, g, "assigned")
		r11_6(c, t)
		r11_5(c, t)
	}
}

// R11.1 no typed nil into an interface slot
func r11_1(c *Ctx, a *parserAnchors, ns *nilSummaries, id string) {
	c.rule(id, "every conversion of a may-be-nil node pointer to an ast interface is dominated by a nil test of that pointer")
	c.floor(6)
	for _, f := range c.libFunctions("parser") {
		n := 0
		allInstrs(f, func(b *ssa.BasicBlock, _ int, in ssa.Instruction) {
			mi, ok := in.(*ssa.MakeInterface)
			if !ok || !nodeLike(mi.Type()) {
				return
			}
			if _, isPtr := mi.X.Type().Underlying().(*types.Pointer); !isPtr {
				return
			}
			n++
			key := fmt.Sprintf("%s: conversion #%d of %s to %s", fnName(f), n, shortType(mi.X.Type()), shortType(mi.Type()))
			pos := mi.Pos()
			if !pos.IsValid() {
				pos = mi.X.Pos()
			}
			if !returnsNilValue(ns, mi.X, map[ssa.Value]bool{}) {
				c.ok(key, pos, "operand is never nil (fresh allocation or a callee that never returns nil)")
				return
			}
			// dominated by the non-nil edge of a test of the same value
			guarded := false
			for _, ob := range f.Blocks {
				for i := range ob.Succs {
					at, ok := a.edgeAtom(ob, i)
					if ok && at.kind == atNil && at.neg && at.val == mi.X && edgeDominates(ob, ob.Succs[i], b) {
						guarded = true
					}
				}
			}
			if guarded {
				c.ok(key, pos, "dominated by a nil test of the operand")
			} else {
				c.bad(key, pos, "a pointer that may be nil is converted to an interface without a nil test: the result is a non-nil interface holding a nil pointer, which passes `stmt != nil` and enters the statement list; compiling it dereferences nil")
			}
		})
	}
}

func shortType(t types.Type) string {
	return types.TypeString(t, func(p *types.Package) string { return p.Name() })
}

// R11.2 nil result => error recorded
func r11_2(c *Ctx, a *parserAnchors, ns *nilSummaries, id string) {
	c.rule(id, "every nil-valued return of a node pointer/interface/slice is reached only after an error was recorded")
	c.floor(15)
	for _, f := range c.libFunctions("parser") {
		if nilConverter(f) != nil {
			c.ok(fnName(f)+": nil only for a nil argument", f.Pos(), "a converter: its nil result is judged where its argument is produced")
			continue
		}
		ci := ns.cleanPaths(a, f)
		n := 0
		seenStore := map[*ssa.Store]bool{}
		allInstrs(f, func(_ *ssa.BasicBlock, _ int, in ssa.Instruction) {
			r, ok := in.(*ssa.Return)
			if !ok {
				return
			}
			for _, v := range r.Results {
				if !nodeLike(v.Type()) {
					continue
				}
				for _, o := range nilOrigins(ns, v) {
					if o.call != nil {
						continue // propagated: judged in the callee
					}
					if o.store != nil {
						if seenStore[o.store] {
							continue
						}
						seenStore[o.store] = true
					}
					n++
					key := fmt.Sprintf("%s: nil return #%d", fnName(f), n)
					pos := r.Pos()
					if o.store != nil {
						pos = o.store.Pos()
					}
					if o.cleanNil(ns, a, ci, r) {
						c.bad(key, pos, "returns nil on a path on which no error was recorded: a failed parse is reported as success (the caller drops the construct silently)")
					} else {
						c.ok(key, pos, "every path to this nil return records an error first")
					}
				}
			}
		})
	}
	// the summaries relied upon
	for _, f := range []*ssa.Function{a.expect, a.expectSemi} {
		c.check(ns.falseIsErr[f], fnName(f)+": false only after an error", f.Pos(), "every `return false` is reached only after an error was recorded", "returns false on a path without recording an error, so callers' `return nil` after it are silent")
	}
}

// R11.4 error contract
func r11_4(c *Ctx, a *parserAnchors) {
	c.rule("R11.4", "ParseProgram: error iff the error list is non-empty, program never nil; single writer/constructor of errors; ranges are {tok.Start, tok.End} of a parser token")
	c.floor(8)
	pp := c.fn("(*parser.Parser).ParseProgram")
	if pp == nil {
		c.unres("ParseProgram", token.NoPos, "not found")
		return
	}
	// the non-empty test
	nonEmpty := func(b *ssa.BasicBlock, i int) (bool, bool) { // (isLenTest, edgeMeansNonEmpty)
		iff := blockIf(b)
		if iff == nil {
			return false, false
		}
		bo, ok := iff.Cond.(*ssa.BinOp)
		if !ok {
			return false, false
		}
		call, ok := isBuiltinCall(bo.X, "len")
		if !ok {
			return false, false
		}
		if _, ok := isFieldLoad(call.Call.Args[0], a.errorsFld); !ok {
			return false, false
		}
		k, ok := constInt64(bo.Y)
		if !ok {
			return false, false
		}
		var trueMeans bool
		switch {
		case bo.Op == token.GTR && k == 0, bo.Op == token.NEQ && k == 0, bo.Op == token.GEQ && k == 1:
			trueMeans = true
		case bo.Op == token.EQL && k == 0, bo.Op == token.LSS && k == 1, bo.Op == token.LEQ && k == 0:
			trueMeans = false
		default:
			return false, false
		}
		if i == 0 {
			return true, trueMeans
		}
		return true, !trueMeans
	}
	nret := 0
	allInstrs(pp, func(b *ssa.BasicBlock, _ int, in ssa.Instruction) {
		r, ok := in.(*ssa.Return)
		if !ok || len(r.Results) != 2 {
			return
		}
		nret++
		key := fmt.Sprintf("ParseProgram: return #%d", nret)
		// program non-nil
		if al, ok := r.Results[0].(*ssa.Alloc); ok && al.Heap {
			c.ok(key+": program", r.Pos(), "a freshly allocated program")
		} else {
			c.bad(key+": program", r.Pos(), "the returned program may be nil")
		}
		errNil := isNilConst(r.Results[1])
		want := !errNil // non-nil error must be under the non-empty edge, nil error under the empty edge
		okEdge := false
		for _, ob := range pp.Blocks {
			for i := range ob.Succs {
				if isLen, ne := nonEmpty(ob, i); isLen && ne == want && edgeDominates(ob, ob.Succs[i], b) {
					okEdge = true
				}
			}
		}
		if errNil {
			c.check(okEdge, key+": nil error", r.Pos(), "returned only when the error list is empty", "a nil error can be returned while the error list is non-empty (accepted tests: len(errors) > 0, != 0, >= 1)")
		} else {
			c.check(okEdge, key+": non-nil error", r.Pos(), "returned only when the error list is non-empty", "an error value can be returned while the error list is empty")
		}
	})
	// writers of the error list
	for _, f := range c.libFunctions() {
		n := 0
		allInstrs(f, func(_ *ssa.BasicBlock, _ int, in ssa.Instruction) {
			st, ok := in.(*ssa.Store)
			if !ok {
				return
			}
			if _, ok := isFieldAddr(st.Addr, a.errorsFld); !ok {
				return
			}
			n++
			key := fmt.Sprintf("%s: store #%d to the error list", fnName(f), n)
			switch f {
			case a.ctor:
				el, ok := sliceLitElems(st.Val)
				c.check((ok && len(el) == 0) || isNilConst(st.Val), key, st.Pos(), "constructor: empty list", "the constructor must start with an empty error list")
			case a.addErrAt:
				call, ok := isBuiltinCall(st.Val, "append")
				good := false
				if ok {
					_, good = isFieldLoad(call.Call.Args[0], a.errorsFld)
				}
				c.check(good, key, st.Pos(), "append to the list", "the error constructor must only append to the list")
				// every call records: no path from the entry to a return avoids the append (a filtered or
				// de-duplicated error makes `nil result => error recorded` false)
				skip := reachesAvoiding(f, nil, st.Block(), func(*ssa.BasicBlock, int) bool { return false })
				c.check(!skip, fmt.Sprintf("%s: every call appends (store #%d)", fnName(f), n), st.Pos(), "the append is on every path from entry to return", "the error constructor can return without appending: an error is dropped, so a failed parse (nil node) can end with an empty error list and ParseProgram reports success for an incomplete tree")
			default:
				c.bad(key, st.Pos(), "the error list is written outside the constructor and the error constructor: errors can be lost or invented")
			}
		})
	}
	// constructions of ParserError
	pe := c.lookupType("parser", "ParserError")
	for _, f := range c.libFunctions() {
		allInstrs(f, func(_ *ssa.BasicBlock, _ int, in ssa.Instruction) {
			if al, ok := in.(*ssa.Alloc); ok && pe != nil && types.Identical(deref(al.Type()), pe) && al.Comment == "complit" {
				c.check(f == a.addErrAt, fmt.Sprintf("%s: constructs a ParserError", fnName(f)), al.Pos(), "the single error constructor", "ParserError values are built outside the single error constructor: their ranges are not checked")
			}
		})
	}
	// the range of the constructed error is {tok.Start, tok.End} of the token parameter
	var tokParam *ssa.Parameter
	for _, p := range a.addErrAt.Params {
		if namedIs(p.Type(), "token", "Token") {
			tokParam = p
		}
	}
	if tokParam == nil {
		c.unres("error constructor: token parameter", a.addErrAt.Pos(), "no token.Token parameter")
	} else {
		fromTok := func(v ssa.Value, sub string) bool {
			// load of (&tokcell).<sub> where tokcell holds the parameter, or Field of the parameter
			if fv, ok := v.(*ssa.Field); ok && fv.X == tokParam && fieldOfField(fv).Name() == sub {
				return true
			}
			u, ok := v.(*ssa.UnOp)
			if !ok {
				return false
			}
			fa, ok := u.X.(*ssa.FieldAddr)
			if !ok || fieldOfAddr(fa).Name() != sub {
				return false
			}
			if s, ok := cellStored(fa.X); ok && s == ssa.Value(tokParam) {
				return true
			}
			return false
		}
		rng := c.lookupType("parser", "Range")
		okS, okE := false, false
		allInstrs(a.addErrAt, func(_ *ssa.BasicBlock, _ int, in ssa.Instruction) {
			st, ok := in.(*ssa.Store)
			if !ok {
				return
			}
			fa, ok := st.Addr.(*ssa.FieldAddr)
			if !ok || rng == nil || !types.Identical(deref(fa.X.Type()), rng) {
				return
			}
			switch fieldOfAddr(fa).Name() {
			case "Start":
				okS = fromTok(st.Val, "Start")
			case "End":
				okE = fromTok(st.Val, "End")
			}
		})
		c.check(okS && okE, "error constructor: range = {tok.Start, tok.End}", a.addErrAt.Pos(), "both ends come from the same token parameter", "the error range is not {Start, End} of the token parameter: a reported range no longer coincides with a token of the input")
	}
	// callers pass a parser token
	for _, f := range c.libFunctions("parser") {
		n := 0
		allInstrs(f, func(_ *ssa.BasicBlock, _ int, in ssa.Instruction) {
			call, ok := in.(*ssa.Call)
			if !ok || call.Call.StaticCallee() != a.addErrAt {
				return
			}
			n++
			key := fmt.Sprintf("%s: error call #%d", fnName(f), n)
			var arg ssa.Value
			for i, p := range a.addErrAt.Params {
				if p == tokParam {
					arg = call.Call.Args[i]
				}
			}
			_, isCur := isFieldLoad(arg, a.cur)
			_, isPeek := isFieldLoad(arg, a.peek)
			_, isParam := arg.(*ssa.Parameter)
			c.check(isCur || isPeek || isParam, key, call.Pos(), "passes the parser's current or peek token (a token of the input)", "the error is located at a token that is neither the current nor the peek token")
		})
	}
}

// ---- R11.6 (part): the climbing loop makes progress ---------------------------------------------------------------------
//
// The expression loop continues while the peek token's binding power exceeds the requested one and then applies the
// infix function registered for that token; a token with a binding power but WITHOUT an infix function would be looked
// up, found missing, and the loop would spin without consuming anything. Termination of expression parsing therefore
// rests on the table invariant  keys(binding powers) ⊆ keys(infix functions)  at all times, and on the infix applier
// advancing before it calls the function. Decided here: the invariant at construction and under every writer, and
// the shape of the applier. Not decided: termination of the other loops (each advances once per iteration by
// inspection of the parse-path enumeration, which would not terminate otherwise) and recursion depth.
func r11_6(c *Ctx, t *tables) {
	c.rule("R11.6", "the expression loop makes progress: every token with a binding power has an infix function (at construction and under every writer of the two tables), and the infix applier advances before calling it")
	c.floor(4)
	c.buildSSA()
	pt := t.pt
	if pt.precFld == nil || pt.infixFld == nil {
		c.unres("tables", token.NoPos, "Parser binding-power / infix table fields not found")
		return
	}
	// (1) at construction
	var missing []string
	for k := range pt.prec {
		if pt.infix[k] == nil {
			missing = append(missing, t.tc.name(k))
		}
	}
	sort.Strings(missing)
	c.check(len(missing) == 0, "constructor: binding-power keys ⊆ infix keys", pt.ctor.Pos(), fmt.Sprintf("%d tokens with a binding power, each has an infix function", len(pt.prec)), fmt.Sprintf("tokens %s have a binding power but no infix function: an expression followed by one of them never ends (the loop finds no function to apply and consumes nothing)", strings.Join(missing, ", ")))
	// (2) writers
	isTableUpdate := func(in ssa.Instruction, fld *types.Var) (*ssa.MapUpdate, bool) {
		mu, ok := in.(*ssa.MapUpdate)
		if !ok {
			return nil, false
		}
		if _, ok := isFieldLoad(mu.Map, fld); !ok {
			return nil, false
		}
		return mu, true
	}
	nw := 0
	for _, f := range c.libFunctions("parser") {
		allInstrs(f, func(b *ssa.BasicBlock, _ int, in ssa.Instruction) {
			mu, ok := isTableUpdate(in, pt.precFld)
			if !ok {
				return
			}
			nw++
			key := fmt.Sprintf("%s: binding-power entry #%d comes with an infix function", fnName(f), nw)
			paired := false
			for _, in2 := range b.Instrs {
				if mu2, ok := isTableUpdate(in2, pt.infixFld); ok && mu2.Key == mu.Key {
					if k, isK := mu2.Value.(*ssa.Const); !isK || !k.IsNil() {
						paired = true
					}
				}
			}
			c.check(paired, key, mu.Pos(), "the same key is entered into the infix table in the same block", "a binding power is entered for a token without entering an infix function for the same token: the expression loop then spins on that token")
		})
		// deletions / nil entries in the infix table
		allInstrs(f, func(_ *ssa.BasicBlock, _ int, in ssa.Instruction) {
			if call, ok := in.(*ssa.Call); ok {
				if b, ok := call.Call.Value.(*ssa.Builtin); ok && b.Name() == "delete" {
					if _, ok := isFieldLoad(call.Call.Args[0], pt.infixFld); ok {
						c.bad(fnName(f)+": deletes from the infix table", call.Pos(), "an infix function is removed while the token may keep its binding power")
					}
				}
			}
			if mu, ok := isTableUpdate(in, pt.infixFld); ok {
				if k, isK := mu.Value.(*ssa.Const); isK && k.IsNil() {
					c.bad(fnName(f)+": nil infix function", mu.Pos(), "a nil function is entered into the infix table")
				}
			}
		})
		// the table fields themselves are replaced only by the constructor
		allInstrs(f, func(_ *ssa.BasicBlock, _ int, in ssa.Instruction) {
			if st, ok := in.(*ssa.Store); ok {
				for _, fld := range []*types.Var{pt.precFld, pt.infixFld} {
					if _, ok := isFieldAddr(st.Addr, fld); ok && c.declIdx[f.Object().(*types.Func)] != pt.ctor {
						c.bad(fmt.Sprintf("%s: replaces table %s", fnName(f), fld.Name()), st.Pos(), "only the constructor may install the tables")
					}
				}
			}
		})
	}
	// (3) the infix applier: looks up the PEEK token's function, returns its argument when there is none, otherwise
	// advances exactly once before calling it
	a := c.parserAnchors()
	n := 0
	for _, f := range c.libFunctions("parser") {
		var lookup *ssa.Lookup
		allInstrs(f, func(_ *ssa.BasicBlock, _ int, in ssa.Instruction) {
			if lk, ok := in.(*ssa.Lookup); ok {
				if _, ok := isFieldLoad(lk.X, pt.infixFld); ok {
					lookup = lk
				}
			}
		})
		if lookup == nil {
			continue
		}
		n++
		key := fmt.Sprintf("%s: advances before applying the infix function", fnName(f))
		// the dynamic call of the looked-up function must be preceded (dominated) by an advance, and the key must be the peek token's type
		peekKey := tokenFieldLoad(lookup.Index, a.peek, "Type")
		var dyn *ssa.Call
		var adv *ssa.Call
		allInstrs(f, func(_ *ssa.BasicBlock, _ int, in ssa.Instruction) {
			if call, ok := in.(*ssa.Call); ok {
				if call.Call.Value == ssa.Value(lookup) || (call.Call.StaticCallee() == nil && !call.Call.IsInvoke() && dependsOn(call.Call.Value, func(v ssa.Value) bool { return v == ssa.Value(lookup) })) {
					dyn = call
				}
				if call.Call.StaticCallee() == a.nextTok {
					adv = call
				}
			}
		})
		switch {
		case !peekKey:
			c.info(key, lookup.Pos(), "the lookup is not keyed by the peek token's type (not the applier)")
		case dyn == nil || adv == nil:
			c.bad(key, lookup.Pos(), "the function looked up for the peek token is called without an advance in this function: the operator token is never consumed and the loop spins")
		default:
			c.check(instrDominates(adv, dyn), key, adv.Pos(), "NextToken dominates the call of the looked-up function", "the looked-up function can be called without the operator token having been consumed first")
		}
	}
	if n == 0 {
		c.unres("infix applier", token.NoPos, "no function looks up the infix table")
	}
	// (4) the statement-list loops (program, block): every iteration consumes a token itself — a statement parser
	// that fails may have consumed nothing, so an advance hidden inside it (or made only when it succeeded) is not
	// progress
	stmtIface := c.lookupType("ast", "Statement")
	// helpers of the loops: an unexported parser function "must advance" when every path to each of its returns
	// passes a direct NextToken (or another such helper); it "parses statements" when a call inside it yields a statement
	mustAdv := map[*ssa.Function]int{} // 0 unknown, 1 yes, 2 no
	var mustAdvance func(f *ssa.Function, depth int) bool
	advancing := func(call *ssa.Call, depth int) bool {
		cal := call.Call.StaticCallee()
		if cal == a.nextTok {
			return true
		}
		return cal != nil && cal.Pkg == a.nextTok.Pkg && cal != a.expect && cal != a.expectSemi && cal.Object() != nil && !cal.Object().Exported() && depth < 2 && mustAdvance(cal, depth+1)
	}
	mustAdvance = func(f *ssa.Function, depth int) bool {
		if v := mustAdv[f]; v != 0 {
			return v == 1
		}
		mustAdv[f] = 2
		if f.Blocks == nil {
			return false
		}
		all := true
		complete := a.enumPaths(f.Blocks[0], func(facts []pathFact, blocks []*ssa.BasicBlock, last *ssa.BasicBlock) {
			if _, isRet := last.Instrs[len(last.Instrs)-1].(*ssa.Return); !isRet {
				return
			}
			for _, b := range blocks {
				for _, call := range callsIn(b) {
					if advancing(call, depth) {
						return
					}
				}
			}
			all = false
		})
		if all && complete {
			mustAdv[f] = 1
		}
		return mustAdv[f] == 1
	}
	var yieldsStatement func(call *ssa.Call, depth int) bool
	yieldsStatement = func(call *ssa.Call, depth int) bool {
		if call.Call.IsInvoke() {
			return false
		}
		if stmtIface != nil && types.Identical(call.Type(), stmtIface) {
			return true
		}
		cal := call.Call.StaticCallee()
		if cal == nil || cal.Pkg != a.nextTok.Pkg || cal.Object() == nil || cal.Object().Exported() || depth >= 2 || cal.Blocks == nil {
			return false
		}
		found := false
		allInstrs(cal, func(_ *ssa.BasicBlock, _ int, in ssa.Instruction) {
			if c2, ok := in.(*ssa.Call); ok && !found && yieldsStatement(c2, depth+1) {
				found = true
			}
		})
		return found
	}
	nl := 0
	for _, f := range c.libFunctions("parser") {
		if f.Parent() != nil || f.Blocks == nil {
			continue
		}
		for _, h := range f.Blocks {
			isHeader := false
			for _, p := range h.Preds {
				if h.Dominates(p) {
					isHeader = true
				}
			}
			if !isHeader {
				continue
			}
			// the loop parses statements: a call inside it yields an ast.Statement
			parses := false
			for _, b := range f.Blocks {
				if !h.Dominates(b) {
					continue
				}
				for _, call := range callsIn(b) {
					if yieldsStatement(call, 0) {
						parses = true
					}
				}
			}
			if !parses {
				continue
			}
			nl++
			key := fmt.Sprintf("%s: statement loop at block %d advances in every iteration", fnName(f), h.Index)
			bad := ""
			complete := a.enumPathsAll(h, func(facts []pathFact, blocks []*ssa.BasicBlock, last *ssa.BasicBlock, back bool) {
				if !back || last != h {
					return
				}
				for _, b := range blocks {
					for _, call := range callsIn(b) {
						if advancing(call, 0) {
							return
						}
					}
				}
				if bad == "" {
					var idx []string
					for _, b := range blocks {
						idx = append(idx, fmt.Sprint(b.Index))
					}
					bad = strings.Join(idx, "→")
				}
			})
			switch {
			case !complete:
				c.unres(key, h.Instrs[0].Pos(), "too many paths")
			case bad != "":
				c.bad(key, f.Pos(), "an iteration of the statement loop can come round without the loop itself advancing (blocks %s): when the statement parser fails without consuming anything the parser spins forever on the same token", bad)
			default:
				c.ok(key, f.Pos(), "every path round the loop passes a NextToken of the loop itself (directly, or in a private helper that advances on every path)")
			}
		}
	}
	if nl == 0 {
		c.unres("statement loops", token.NoPos, "no loop that parses statements found")
	}
}

// ---- R11.5: panic obligations of parser, ast, compiler, sourcemap ----------------------------------------------------
//
// Every instruction of the four packages that can panic by itself is enumerated and must be discharged: an index or
// slice by a dominating bound (guardedIndex), a type assertion by its comma-ok form, a dynamic call by where its
// function value comes from (a table entry tested for nil, a constructor-initialised field that is only ever
// replaced by non-nil closures, a parameter supplied by a plugin — assumed non-nil, listed), a map update by the map
// being allocated in the constructor, integer division by a non-zero constant divisor, explicit panics never.
func r11_5(c *Ctx, t *tables) {
	c.rule("R11.5", "panic obligations of packages parser, ast, compiler, sourcemap: every index, slice, type assertion, dynamic call, map update, division and panic is enumerated and discharged")
	c.floor(15)
	c.buildSSA()
	nonNilFuncFields := map[*types.Var]bool{}
	// function-typed fields whose every store is a non-nil function value (closure, function, bound method)
	for _, pkg := range []string{"parser", "ast", "compiler", "sourcemap"} {
		p := c.Pkgs[pkg]
		sc := p.Types.Scope()
		for _, nm := range sc.Names() {
			tn, ok := sc.Lookup(nm).(*types.TypeName)
			if !ok {
				continue
			}
			st, ok := tn.Type().Underlying().(*types.Struct)
			if !ok {
				continue
			}
			for i := 0; i < st.NumFields(); i++ {
				if _, isSig := st.Field(i).Type().Underlying().(*types.Signature); isSig {
					nonNilFuncFields[st.Field(i)] = true
				}
			}
		}
	}
	stores := map[*types.Var]int{}
	for _, f := range c.libFunctions() {
		allInstrs(f, func(_ *ssa.BasicBlock, _ int, in ssa.Instruction) {
			st, ok := in.(*ssa.Store)
			if !ok {
				return
			}
			fa, ok := st.Addr.(*ssa.FieldAddr)
			if !ok {
				return
			}
			fld := fieldOfAddr(fa)
			if !nonNilFuncFields[fld] {
				return
			}
			stores[fld]++
			switch v := st.Val.(type) {
			case *ssa.MakeClosure, *ssa.Function:
			case *ssa.Const:
				if v.IsNil() {
					nonNilFuncFields[fld] = false
				}
			default:
				nonNilFuncFields[fld] = false
			}
		})
	}
	for _, f := range c.libFunctions("parser", "ast", "compiler", "sourcemap") {
		n := map[string]int{}
		key := func(kind string) string {
			n[kind]++
			return fmt.Sprintf("%s: %s #%d", fnName(f), kind, n[kind])
		}
		allInstrs(f, func(b *ssa.BasicBlock, _ int, in ssa.Instruction) {
			switch x := in.(type) {
			case *ssa.Index, *ssa.IndexAddr:
				var base, idx ssa.Value
				if i, ok := x.(*ssa.Index); ok {
					base, idx = i.X, i.Index
				} else {
					i := x.(*ssa.IndexAddr)
					base, idx = i.X, i.Index
				}
				// composite-literal element stores into a fresh array
				if al, ok := base.(*ssa.Alloc); ok {
					if arr, ok := deref(al.Type()).Underlying().(*types.Array); ok {
						if k, ok := constInt64(idx); ok && k >= 0 && k < arr.Len() {
							return
						}
					}
				}
				k := key("index")
				if why := indexTypeFitsArray(base, idx); why != "" {
					c.ok(k, in.Pos(), "%s", why)
				} else if why := guardedIndex(f, base, idx, b); why != "" {
					c.ok(k, in.Pos(), "%s", why)
				} else if why := guardedIndexMore(f, base, idx, b); why != "" {
					c.ok(k, in.Pos(), "%s", why)
				} else if c.bceProvenIn(f, in.Pos()) {
					c.ok(k, in.Pos(), bceWhy)
				} else {
					c.unres(k, in.Pos(), "index %s[%s] is not shown to be in range (no dominating bound recognised, not proven by the compiler either): it may panic", base.Name(), idx.Name())
				}
			case *ssa.Slice:
				if _, isArr := deref(x.X.Type()).Underlying().(*types.Array); isArr && x.Low == nil && x.High == nil {
					return
				}
				k := key("slice")
				if why := guardedSlice(f, x, b); why != "" {
					c.ok(k, in.Pos(), "%s", why)
				} else if c.bceProvenIn(f, in.Pos()) {
					c.ok(k, in.Pos(), bceWhy)
				} else {
					c.unres(k, in.Pos(), "slice bounds of %s are not shown to be in range (no dominating bound recognised, not proven by the compiler either): it may panic", x.X.Name())
				}
			case *ssa.TypeAssert:
				k := key("type assertion")
				c.check(x.CommaOk, k, in.Pos(), "comma-ok form", "a failing single-value type assertion panics")
			case *ssa.Panic:
				if strings.HasPrefix(b.Comment, "rangefunc.") || strings.HasPrefix(b.Comment, "yield-") {
					return // compiler-generated misuse check of a range-over-func loop, unreachable for a well-behaved iterator
				}
				c.bad(key("panic"), in.Pos(), "explicit panic in library code")
			case *ssa.BinOp:
				if (x.Op == token.QUO || x.Op == token.REM) && !isFloat(x.Type()) {
					k := key("division")
					kk, ok := constInt64(x.Y)
					c.check(ok && kk != 0, k, in.Pos(), "constant non-zero divisor", "integer division by a value that is not a non-zero constant")
				}
			case *ssa.MapUpdate:
				k := key("map update")
				if _, isMake := x.Map.(*ssa.MakeMap); isMake {
					c.ok(k, in.Pos(), "freshly made map")
					return
				}
				fld := sliceSourceField(x.Map)
				if fld == nil {
					if _, isPar := x.Map.(*ssa.Parameter); isPar {
						c.ok(k, in.Pos(), "map supplied by the caller")
						return
					}
					c.bad(k, in.Pos(), "update of a map whose origin is not understood (a nil map panics)")
					return
				}
				// every store to that field in the library installs a made map
				allMade, any := true, false
				for _, g := range c.libFunctions() {
					allInstrs(g, func(_ *ssa.BasicBlock, _ int, in2 ssa.Instruction) {
						if st, ok := in2.(*ssa.Store); ok {
							if _, ok := isFieldAddr(st.Addr, fld); ok {
								any = true
								if !nonNilMapValue(st.Val) && !copyConstructStore(st) {
									allMade = false // (a clone of the same field of another object is non-nil when that one is)
								}
							}
						}
					})
				}
				c.check(any && allMade, k, in.Pos(), "field "+fld.Name()+" only ever holds a map made by the library", "field "+fld.Name()+" can hold a map that was not made (nil map): the update panics")
			case *ssa.Call:
				if x.Call.IsInvoke() || x.Call.StaticCallee() != nil {
					return
				}
				if _, isB := x.Call.Value.(*ssa.Builtin); isB {
					return
				}
				k := key("dynamic call")
				why, ok := nonNilCallee(c, f, x, b, nonNilFuncFields)
				if ok {
					c.ok(k, in.Pos(), "%s", why)
				} else {
					c.bad(k, in.Pos(), "a function value that may be nil is called: %s", why)
				}
			}
		})
	}
}

// guardedSlice: s[lo:hi] with bounds justified by dominating tests / len.
func guardedSlice(f *ssa.Function, x *ssa.Slice, at *ssa.BasicBlock) string {
	// s[:len(s)-1] under len(s) > 0 ; s[:0] ; s[i:] with i <= len(s) are the idioms in use
	isLenOf := func(v ssa.Value, base ssa.Value) bool {
		lc, ok := isBuiltinCall(v, "len")
		return ok && sameValue(lc.Call.Args[0], base)
	}
	// s[i+k:] (k = 0 or 1) under a dominating i < len(s), i >= 0 by a non-negative start and +1 steps
	if x.Low != nil && x.High == nil && x.Max == nil {
		base, k := x.Low, int64(0)
		if bo, ok := x.Low.(*ssa.BinOp); ok && bo.Op == token.ADD {
			if kk, ok := constInt64(bo.Y); ok && (kk == 0 || kk == 1) {
				base, k = bo.X, kk
			}
		}
		if nonNegativeCounter(base) {
			for _, ob := range f.Blocks {
				iff := blockIf(ob)
				if iff == nil {
					continue
				}
				c2, ok := iff.Cond.(*ssa.BinOp)
				if !ok {
					continue
				}
				switch {
				case c2.Op == token.LSS && c2.X == base && isLenOf(c2.Y, x.X) && condEdgeDominates(ob, true, at),
					c2.Op == token.GTR && c2.Y == base && isLenOf(c2.X, x.X) && condEdgeDominates(ob, true, at),
					c2.Op == token.GEQ && c2.X == base && isLenOf(c2.Y, x.X) && condEdgeDominates(ob, false, at),
					c2.Op == token.LEQ && c2.Y == base && isLenOf(c2.X, x.X) && condEdgeDominates(ob, false, at):
					return fmt.Sprintf("s[i+%d:] under a dominating i < len(s) with i a counter that starts non-negative and only grows", k)
				}
			}
		}
	}
	// s[k:] with a constant k under a dominating test that len(s) >= k
	if x.Low != nil && x.High == nil && x.Max == nil {
		if k, ok := constInt64(x.Low); ok && k >= 0 {
			if k == 0 {
				return "s[0:]"
			}
			for _, ob := range f.Blocks {
				iff := blockIf(ob)
				if iff == nil {
					continue
				}
				c2, ok := iff.Cond.(*ssa.BinOp)
				if !ok || !isLenOf(c2.X, x.X) {
					continue
				}
				kk, ok := constInt64(c2.Y)
				if !ok {
					continue
				}
				switch {
				case c2.Op == token.GTR && kk >= k-1 && condEdgeDominates(ob, true, at),
					c2.Op == token.GEQ && kk >= k && condEdgeDominates(ob, true, at),
					c2.Op == token.EQL && kk == 0 && k == 1 && condEdgeDominates(ob, false, at),
					c2.Op == token.NEQ && kk == 0 && k == 1 && condEdgeDominates(ob, true, at),
					c2.Op == token.LSS && kk <= k && kk >= k && condEdgeDominates(ob, false, at),
					c2.Op == token.LEQ && kk == k-1 && condEdgeDominates(ob, false, at):
					return fmt.Sprintf("s[%d:] under a dominating test that len(s) >= %d", k, k)
				}
			}
		}
	}
	if x.Low == nil && x.High != nil {
		if k, ok := constInt64(x.High); ok && k == 0 {
			return "s[:0]"
		}
		if bo, ok := x.High.(*ssa.BinOp); ok && bo.Op == token.SUB && isLenOf(bo.X, x.X) {
			if k, ok := constInt64(bo.Y); ok && k >= 0 {
				// len(s) >= k must be established
				for _, ob := range f.Blocks {
					iff := blockIf(ob)
					if iff == nil {
						continue
					}
					c2, ok := iff.Cond.(*ssa.BinOp)
					if !ok || !isLenOf(c2.X, x.X) {
						continue
					}
					kk, ok := constInt64(c2.Y)
					if !ok {
						continue
					}
					switch {
					case c2.Op == token.GTR && kk >= k-1 && condEdgeDominates(ob, true, at),
						c2.Op == token.GEQ && kk >= k && condEdgeDominates(ob, true, at),
						c2.Op == token.EQL && kk < k && kk == 0 && k == 1 && condEdgeDominates(ob, false, at),
						c2.Op == token.NEQ && kk == 0 && k == 1 && condEdgeDominates(ob, true, at),
						c2.Op == token.LSS && kk <= k && condEdgeDominates(ob, false, at),
						c2.Op == token.LEQ && kk <= k-1 && condEdgeDominates(ob, false, at):
						return fmt.Sprintf("s[:len(s)-%d] under a dominating test that len(s) >= %d", k, k)
					}
				}
			}
		}
	}
	return ""
}

func sameValue(a, b ssa.Value) bool {
	if a == b {
		return true
	}
	// two loads of the same field of the same object with no store between are treated as the same slice header
	ua, ok1 := a.(*ssa.UnOp)
	ub, ok2 := b.(*ssa.UnOp)
	if ok1 && ok2 {
		fa, ok3 := ua.X.(*ssa.FieldAddr)
		fb, ok4 := ub.X.(*ssa.FieldAddr)
		if ok3 && ok4 && fa.X == fb.X && fa.Field == fb.Field {
			return true
		}
	}
	return false
}

// nonNilCallee justifies a call through a function value.
func nonNilCallee(c *Ctx, f *ssa.Function, call *ssa.Call, at *ssa.BasicBlock, nonNilFields map[*types.Var]bool) (string, bool) {
	v := call.Call.Value
	switch x := v.(type) {
	case *ssa.MakeClosure, *ssa.Function:
		return "a function literal", true
	case *ssa.Parameter:
		return "parameter " + x.Name() + ": supplied by the caller/plugin (assumed non-nil; interceptors and operator constructors are outside the program)", true
	case *ssa.FreeVar:
		return "captured variable " + x.Name() + " (a parameter or previous field value of the enclosing function)", true
	case *ssa.UnOp:
		if fa, ok := x.X.(*ssa.FieldAddr); ok {
			fld := fieldOfAddr(fa)
			if nonNilFields[fld] {
				return "field " + fld.Name() + ": every store in the library is a function literal or a closure", true
			}
			return "field " + fld.Name() + " can be stored a value that is not a function literal", false
		}
		if _, ok := x.X.(*ssa.FreeVar); ok {
			return "captured cell (stored once by the enclosing function)", true
		}
		if _, ok := x.X.(*ssa.IndexAddr); ok {
			return "element of a slice of functions supplied by the caller/plugin (range over options)", true
		}
	case *ssa.Lookup, *ssa.Extract:
		// table entry: must be tested for nil on a dominating edge
		for _, ob := range f.Blocks {
			iff := blockIf(ob)
			if iff == nil {
				continue
			}
			bo, ok := iff.Cond.(*ssa.BinOp)
			if !ok || bo.X != v || !isNilConst(bo.Y) {
				continue
			}
			if bo.Op == token.EQL && condEdgeDominates(ob, false, at) || bo.Op == token.NEQ && condEdgeDominates(ob, true, at) {
				return "table entry tested for nil before the call", true
			}
		}
		return "a table entry is called without a nil test", false
	case *ssa.Phi:
		return "merged function value", false
	case *ssa.Call:
		if cal := x.Call.StaticCallee(); cal != nil && !isLibPath(pkgPathOf(cal)) {
			switch pkgPathOf(cal) {
			case "slices", "maps", "iter":
				return "iterator returned by " + pkgPathOf(cal) + "." + cal.Name() + " (never nil)", true
			}
		}
	}
	return fmt.Sprintf("function value of kind %T", v), false
}

// guardedIndexMore: further bound idioms used outside the lexer (no CSE in go/ssa: expressions are compared by shape).
func guardedIndexMore(f *ssa.Function, x, idx ssa.Value, at *ssa.BasicBlock) string {
	sameColl := func(a ssa.Value) bool {
		if a == x {
			return true
		}
		if fa := sliceSourceField(a); fa != nil && fa == sliceSourceField(x) {
			return true
		}
		return false
	}
	// lenOf(v): v is len(x) (possibly through a local copy of the len call)
	lenOf := func(v ssa.Value) bool {
		lc, ok := isBuiltinCall(v, "len")
		return ok && sameColl(lc.Call.Args[0])
	}
	var sameExpr func(a, b ssa.Value) bool
	sameExpr = func(a, b ssa.Value) bool {
		if a == b {
			return true
		}
		ka, ok1 := constInt64(a)
		kb, ok2 := constInt64(b)
		if ok1 && ok2 {
			return ka == kb
		}
		ba, ok1 := a.(*ssa.BinOp)
		bb, ok2 := b.(*ssa.BinOp)
		if ok1 && ok2 && ba.Op == bb.Op {
			return sameExpr(ba.X, bb.X) && sameExpr(ba.Y, bb.Y)
		}
		if lenOf(a) && lenOf(b) {
			return true
		}
		return false
	}
	// minLen: the largest c such that a dominating edge establishes len(x) >= c
	minLen := int64(0)
	for _, ob := range f.Blocks {
		iff := blockIf(ob)
		if iff == nil {
			continue
		}
		bo, ok := iff.Cond.(*ssa.BinOp)
		if !ok {
			continue
		}
		var k int64
		op := bo.Op
		switch {
		case lenOf(bo.X):
			kk, ok := constInt64(bo.Y)
			if !ok {
				continue
			}
			k = kk
		case lenOf(bo.Y):
			kk, ok := constInt64(bo.X)
			if !ok {
				continue
			}
			k = kk
			switch op {
			case token.LSS:
				op = token.GTR
			case token.LEQ:
				op = token.GEQ
			case token.GTR:
				op = token.LSS
			case token.GEQ:
				op = token.LEQ
			}
		default:
			continue
		}
		// len op k: which edge gives a lower bound?
		type eb struct {
			edge int
			lo   int64
		}
		var ebs []eb
		switch op {
		case token.GTR:
			ebs = []eb{{0, k + 1}}
		case token.GEQ:
			ebs = []eb{{0, k}}
		case token.LSS:
			ebs = []eb{{1, k}}
		case token.LEQ:
			ebs = []eb{{1, k + 1}}
		case token.EQL:
			if k == 0 {
				ebs = []eb{{1, 1}}
			} else {
				ebs = []eb{{0, k}}
			}
		case token.NEQ:
			if k == 0 {
				ebs = []eb{{0, 1}}
			}
		}
		for _, e := range ebs {
			if edgeDominates(ob, ob.Succs[e.edge], at) && e.lo > minLen {
				minLen = e.lo
			}
		}
	}
	// A: constant index below the established length
	if k, ok := constInt64(idx); ok && k >= 0 && k < minLen {
		return fmt.Sprintf("constant index %d under a dominating test that the length is at least %d", k, minLen)
	}
	// B: len(x) - c with the length known to be at least c
	if bo, ok := idx.(*ssa.BinOp); ok && bo.Op == token.SUB && lenOf(bo.X) {
		if c, ok := constInt64(bo.Y); ok && c >= 1 && c <= minLen {
			return fmt.Sprintf("len-%d under a dominating test that the length is at least %d", c, minLen)
		}
	}
	// C: the same expression was tested against the length (shape equality; go/ssa does not share subexpressions)
	for _, ob := range f.Blocks {
		iff := blockIf(ob)
		if iff == nil {
			continue
		}
		bo, ok := iff.Cond.(*ssa.BinOp)
		if !ok {
			continue
		}
		edge := -1
		switch {
		case bo.Op == token.LSS && sameExpr(bo.X, idx) && lenOf(bo.Y):
			edge = 0
		case bo.Op == token.GTR && sameExpr(bo.Y, idx) && lenOf(bo.X):
			edge = 0
		case bo.Op == token.GEQ && sameExpr(bo.X, idx) && lenOf(bo.Y):
			edge = 1
		case bo.Op == token.LEQ && sameExpr(bo.Y, idx) && lenOf(bo.X):
			edge = 1
		}
		if edge >= 0 && edgeDominates(ob, ob.Succs[edge], at) {
			// non-negative: a loop counter starting at 0/-1 plus a non-negative constant
			if b2, ok := idx.(*ssa.BinOp); ok && b2.Op == token.ADD {
				if c, ok := constInt64(b2.Y); ok && c >= 0 {
					if p, ok := b2.X.(*ssa.Phi); ok && phiStartsAt(p, -1) {
						return "the same index expression is tested against the length on a dominating edge"
					}
				}
			}
		}
	}
	// D: descending loop  for i := len(x)-1; i >= 0; i--
	if p, ok := idx.(*ssa.Phi); ok {
		okEdges := true
		for _, e := range p.Edges {
			b2, ok := e.(*ssa.BinOp)
			if !ok || b2.Op != token.SUB {
				okEdges = false
				break
			}
			c, isC := constInt64(b2.Y)
			if !isC || c < 1 {
				okEdges = false
				break
			}
			if !(lenOf(b2.X) || b2.X == ssa.Value(p)) {
				okEdges = false
			}
		}
		if okEdges {
			for _, ob := range f.Blocks {
				iff := blockIf(ob)
				if iff == nil {
					continue
				}
				bo, ok := iff.Cond.(*ssa.BinOp)
				if !ok || bo.X != ssa.Value(p) {
					continue
				}
				k, ok := constInt64(bo.Y)
				if !ok {
					continue
				}
				if (bo.Op == token.GEQ && k == 0 && edgeDominates(ob, ob.Succs[0], at)) || (bo.Op == token.LSS && k == 0 && edgeDominates(ob, ob.Succs[1], at)) || (bo.Op == token.GTR && k == -1 && edgeDominates(ob, ob.Succs[0], at)) {
					return "descending counter: starts at len-1, only decreases, and is tested >= 0 on a dominating edge"
				}
			}
		}
	}
	return ""
}

func phiStartsAt(p *ssa.Phi, min int64) bool {
	for _, e := range p.Edges {
		if k, ok := constInt64(e); ok {
			if k < min {
				return false
			}
			continue
		}
		if bo, ok := e.(*ssa.BinOp); ok && bo.Op == token.ADD {
			if k, ok := constInt64(bo.Y); ok && k >= 0 {
				continue
			}
		}
		return false
	}
	return true
}

// nonNilMapValue: v is a freshly made map, or a clone of a package-level map that is itself made by its initialiser
// (maps.Clone preserves nil-ness, so the source must be known non-nil).
func nonNilMapValue(v ssa.Value) bool {
	if _, ok := v.(*ssa.MakeMap); ok {
		return true
	}
	call, ok := v.(*ssa.Call)
	if !ok {
		return false
	}
	cal := call.Call.StaticCallee()
	if cal != nil && isLibPath(pkgPathOf(cal)) {
		return returnsMadeMap(cal, 0)
	}
	if cal == nil || !extFuncIs(cal, "maps", "Clone") || len(call.Call.Args) != 1 {
		return false
	}
	g := globalOf(call.Call.Args[0])
	if g == nil {
		// a call of a library function that returns a made map
		if c2, ok := call.Call.Args[0].(*ssa.Call); ok {
			return returnsMadeMap(c2.Call.StaticCallee(), 0)
		}
		return false
	}
	init := g.Pkg.Func("init")
	if init == nil || !globalWrittenOnlyInInit(g) {
		return false
	}
	made := false
	allInstrs(init, func(_ *ssa.BasicBlock, _ int, in ssa.Instruction) {
		if st, ok := in.(*ssa.Store); ok && st.Addr == ssa.Value(g) {
			switch x := st.Val.(type) {
			case *ssa.MakeMap:
				made = true
			case *ssa.Call:
				made = returnsMadeMap(x.Call.StaticCallee(), 0)
			}
		}
	})
	return made
}

// returnsMadeMap: every return of f yields a map made in f (or by a callee that does), to depth 2.
func returnsMadeMap(f *ssa.Function, depth int) bool {
	if f == nil || f.Blocks == nil || depth > 2 {
		return false
	}
	ok, any := true, false
	allInstrs(f, func(_ *ssa.BasicBlock, _ int, in ssa.Instruction) {
		r, isRet := in.(*ssa.Return)
		if !isRet || len(r.Results) != 1 {
			return
		}
		any = true
		switch x := r.Results[0].(type) {
		case *ssa.MakeMap:
		case *ssa.Call:
			if !nonNilMapValue(x) && !returnsMadeMap(x.Call.StaticCallee(), depth+1) {
				ok = false
			}
		default:
			ok = false
		}
	})
	return ok && any
}

// indexTypeFitsArray: an array (or pointer to array) indexed by a value whose type cannot exceed its length —
// [256]T by a byte, [65536]T by a uint16 — or by an in-range constant.
func indexTypeFitsArray(base, idx ssa.Value) string {
	arr, ok := deref(base.Type()).Underlying().(*types.Array)
	if !ok {
		return ""
	}
	if k, ok := constInt64(idx); ok {
		if k >= 0 && k < arr.Len() {
			return fmt.Sprintf("constant index %d into an array of %d", k, arr.Len())
		}
		return ""
	}
	v := idx
	for {
		cv, ok := v.(*ssa.Convert)
		if !ok {
			break
		}
		// widening conversions of an unsigned value keep its range
		src, ok := cv.X.Type().Underlying().(*types.Basic)
		if !ok || src.Info()&types.IsUnsigned == 0 {
			break
		}
		dst, ok := cv.Type().Underlying().(*types.Basic)
		if !ok || dst.Info()&types.IsInteger == 0 || basicBits(dst) <= basicBits(src) {
			break
		}
		v = cv.X
	}
	b, ok := v.Type().Underlying().(*types.Basic)
	if !ok || b.Info()&types.IsUnsigned == 0 {
		return ""
	}
	bits := basicBits(b)
	if bits == 0 || bits > 16 {
		return ""
	}
	if int64(1)<<bits <= arr.Len() {
		return fmt.Sprintf("index of type %s (< %d) into an array of %d", b.Name(), int64(1)<<bits, arr.Len())
	}
	return ""
}

func basicBits(b *types.Basic) int {
	switch b.Kind() {
	case types.Uint8, types.Int8:
		return 8
	case types.Uint16, types.Int16:
		return 16
	case types.Uint32, types.Int32:
		return 32
	case types.Uint64, types.Int64, types.Int, types.Uint, types.Uintptr:
		return 64
	}
	return 0
}

// nonNegativeCounter: v is a loop variable built from non-negative constants and +constant steps (phi of such values).
func nonNegativeCounter(v ssa.Value) bool {
	seen := map[ssa.Value]bool{}
	var walk func(v ssa.Value) bool
	walk = func(v ssa.Value) bool {
		if seen[v] {
			return true
		}
		seen[v] = true
		switch x := v.(type) {
		case *ssa.Const:
			k, ok := constInt64(x)
			return ok && k >= 0
		case *ssa.Phi:
			for _, e := range x.Edges {
				if !walk(e) {
					return false
				}
			}
			return true
		case *ssa.BinOp:
			if x.Op == token.ADD {
				if k, ok := constInt64(x.Y); ok && k >= 0 {
					return walk(x.X)
				}
			}
		}
		return false
	}
	return walk(v)
}

// nilConverter: f turns a node value into another node type and yields nil only for a nil argument:
//
//	func conv(x T) I { if x == nil (or the zero value of T) { return nil }; return x }
//
// Every nil-constant return sits on the edge on which the (single) value parameter was found nil/zero, every other
// return yields the parameter itself (possibly converted to an interface). A call conv(e) is then nil exactly when e is.
var nilConverterCache = map[*ssa.Function]*ssa.Parameter{}

func nilConverter(f *ssa.Function) *ssa.Parameter {
	if f == nil || f.Blocks == nil {
		return nil
	}
	if p, ok := nilConverterCache[f]; ok {
		return p
	}
	nilConverterCache[f] = nil
	if f.Signature.Recv() != nil || len(f.Params) != 1 || f.Signature.Results().Len() != 1 {
		return nil
	}
	par := f.Params[0]
	isZero := func(v ssa.Value) bool {
		k, ok := v.(*ssa.Const)
		return ok && k.Value == nil
	}
	derived := func(v ssa.Value) bool {
		for i := 0; i < 4; i++ {
			switch x := v.(type) {
			case *ssa.Parameter:
				return x == par
			case *ssa.MakeInterface:
				v = x.X
			case *ssa.ChangeInterface:
				v = x.X
			case *ssa.ChangeType:
				v = x.X
			default:
				return false
			}
		}
		return false
	}
	good, anyNil := true, false
	pure := true
	allInstrs(f, func(_ *ssa.BasicBlock, _ int, in ssa.Instruction) {
		switch in.(type) {
		case *ssa.Store, *ssa.MapUpdate, *ssa.Call, *ssa.Go, *ssa.Defer, *ssa.Send:
			pure = false
		}
	})
	if !pure {
		return nil
	}
	allInstrs(f, func(b *ssa.BasicBlock, _ int, in ssa.Instruction) {
		r, ok := in.(*ssa.Return)
		if !ok || len(r.Results) != 1 {
			return
		}
		v := r.Results[0]
		if derived(v) {
			return
		}
		if !isZero(v) {
			good = false
			return
		}
		anyNil = true
		guarded := false
		for _, ob := range f.Blocks {
			iff := blockIf(ob)
			if iff == nil {
				continue
			}
			bo, ok := iff.Cond.(*ssa.BinOp)
			if !ok || (bo.Op != token.EQL && bo.Op != token.NEQ) {
				continue
			}
			x, y := bo.X, bo.Y
			if isZero(x) {
				x, y = y, x
			}
			if x != ssa.Value(par) || !isZero(y) {
				continue
			}
			if condEdgeDominates(ob, bo.Op == token.EQL, b) {
				guarded = true
			}
		}
		if !guarded {
			good = false
		}
	})
	if good && anyNil {
		nilConverterCache[f] = par
		return par
	}
	return nil
}
