package main

import (
	"go/token"
	"go/types"

	"golang.org/x/tools/go/callgraph"
	"golang.org/x/tools/go/ssa"
)

// taint is an interprocedural may-alias propagation over SSA: starting from seed values (a tree root, a builder, a
// compiler) it marks every value that may point INTO the seeded object graph and records the events a rule wants to
// judge: writes through such a value, retention of such a value in other heap memory, and calls that hand such a
// value to code outside the analysed packages. Values that were stored to heap memory other than local cells lose
// their mark (there is no points-to analysis here); that direction is covered by the "retained" event itself.
type taint struct {
	c      *Ctx
	cg     *callgraph.Graph
	vals   map[ssa.Value]bool
	cells  map[ssa.Value]bool // local cells (Alloc / FreeVar) whose CONTENT is marked
	work   []ssa.Value
	events []taintEvent
	seen   map[taintEventKey]bool
	fns    map[*ssa.Function]bool // functions in which a marked value occurs
}

type taintEventKind int

const (
	evWrite    taintEventKind = iota // store / map update / append / copy / delete through a marked value
	evRetain                         // a marked value is stored into unmarked non-local memory
	evExternal                       // a marked value is passed to a function outside the library
	evReturn                         // a marked value is returned (informational; the flow continues at the callers)
	evCapture                        // a marked value is captured by a closure (flow continues inside)
)

type taintEvent struct {
	kind   taintEventKind
	instr  ssa.Instruction
	what   string
	callee string
	argIdx int
}
type taintEventKey struct {
	kind  taintEventKind
	instr ssa.Instruction
	arg   int
}

func newTaint(c *Ctx) *taint {
	return &taint{c: c, cg: c.callGraph(), vals: map[ssa.Value]bool{}, cells: map[ssa.Value]bool{}, seen: map[taintEventKey]bool{}, fns: map[*ssa.Function]bool{}}
}

// refLike reports whether a value of type t can alias mutable memory.
func refLike(t types.Type) bool {
	return refLikeDepth(t, 0)
}

func refLikeDepth(t types.Type, d int) bool {
	if d > 6 {
		return true
	}
	switch u := t.Underlying().(type) {
	case *types.Pointer, *types.Slice, *types.Map, *types.Chan, *types.Interface:
		return true
	case *types.Struct:
		for i := 0; i < u.NumFields(); i++ {
			if refLikeDepth(u.Field(i).Type(), d+1) {
				return true
			}
		}
	case *types.Array:
		return refLikeDepth(u.Elem(), d+1)
	case *types.Tuple:
		for i := 0; i < u.Len(); i++ {
			if refLikeDepth(u.At(i).Type(), d+1) {
				return true
			}
		}
	}
	return false
}

func (t *taint) mark(v ssa.Value) {
	if v == nil || t.vals[v] {
		return
	}
	if !refLike(v.Type()) {
		return
	}
	t.vals[v] = true
	t.work = append(t.work, v)
	if f := v.Parent(); f != nil {
		t.fns[f] = true
	}
}

func (t *taint) markCell(addr ssa.Value) {
	if addr == nil || t.cells[addr] {
		return
	}
	t.cells[addr] = true
	refs := addr.Referrers()
	if refs == nil {
		return
	}
	for _, r := range *refs {
		switch r := r.(type) {
		case *ssa.UnOp:
			if r.Op == token.MUL && r.X == addr {
				t.mark(r)
			}
		case *ssa.MakeClosure:
			fn := r.Fn.(*ssa.Function)
			for i, b := range r.Bindings {
				if b == addr {
					t.markCell(fn.FreeVars[i])
				}
			}
		case *ssa.FieldAddr, *ssa.IndexAddr:
			// a cell holding a struct/array: its parts are cells too
			t.markCell(r.(ssa.Value))
		}
	}
}

func (t *taint) event(k taintEventKind, in ssa.Instruction, arg int, callee, what string) {
	key := taintEventKey{k, in, arg}
	if t.seen[key] {
		return
	}
	t.seen[key] = true
	t.events = append(t.events, taintEvent{kind: k, instr: in, what: what, callee: callee, argIdx: arg})
}

func isLocalCell(addr ssa.Value) bool {
	switch a := addr.(type) {
	case *ssa.Alloc:
		return true
	case *ssa.FreeVar:
		_ = a
		return true
	case *ssa.FieldAddr:
		return isLocalCell(a.X)
	case *ssa.IndexAddr:
		if _, ok := deref(a.X.Type()).Underlying().(*types.Array); ok {
			return isLocalCell(a.X)
		}
	}
	return false
}

func (t *taint) isLib(f *ssa.Function) bool {
	if f == nil {
		return false
	}
	p := f.Pkg
	if p == nil && f.Origin() != nil {
		p = f.Origin().Pkg
	}
	if p == nil {
		if f.Parent() != nil {
			return t.isLib(f.Parent())
		}
		// bound-method / thunk wrappers of library methods
		if f.Object() != nil && f.Object().Pkg() != nil {
			return isLibPath(f.Object().Pkg().Path())
		}
		return false
	}
	return isLibPath(p.Pkg.Path())
}

func isLibPath(path string) bool {
	return len(path) > len(modPath) && path[:len(modPath)+1] == modPath+"/"
}

// callees of a call site: static callee, or the VTA call graph's out-edges for that site.
func (t *taint) callees(ci ssa.CallInstruction) []*ssa.Function {
	if f := ci.Common().StaticCallee(); f != nil {
		return []*ssa.Function{f}
	}
	n := t.cg.Nodes[ci.Parent()]
	if n == nil {
		return nil
	}
	var out []*ssa.Function
	seen := map[*ssa.Function]bool{}
	for _, e := range n.Out {
		if e.Site == ci && !seen[e.Callee.Func] {
			seen[e.Callee.Func] = true
			out = append(out, e.Callee.Func)
		}
	}
	// interface method calls: a library has no callers that make types flow into its entry points, so VTA alone may
	// resolve nothing; add the class-hierarchy callees (sound over-approximation)
	if ci.Common().IsInvoke() {
		if n2 := t.c.chaCG.Nodes[ci.Parent()]; n2 != nil {
			for _, e := range n2.Out {
				if e.Site == ci && !seen[e.Callee.Func] {
					seen[e.Callee.Func] = true
					out = append(out, e.Callee.Func)
				}
			}
		}
	}
	return out
}

func (t *taint) run() {
	for len(t.work) > 0 {
		v := t.work[len(t.work)-1]
		t.work = t.work[:len(t.work)-1]
		// parameters and free variables have no referrers list problems; all values do have Referrers except a few
		refs := v.Referrers()
		if refs == nil {
			continue
		}
		for _, r := range *refs {
			t.use(v, r)
		}
	}
}

func (t *taint) use(v ssa.Value, r ssa.Instruction) {
	switch r := r.(type) {
	case *ssa.FieldAddr, *ssa.IndexAddr:
		t.mark(r.(ssa.Value))
	case *ssa.Field, *ssa.Index, *ssa.Slice, *ssa.ChangeType, *ssa.Convert, *ssa.MakeInterface, *ssa.ChangeInterface, *ssa.TypeAssert, *ssa.Phi, *ssa.Extract, *ssa.Range, *ssa.Next, *ssa.SliceToArrayPointer:
		t.mark(r.(ssa.Value))
	case *ssa.Lookup:
		if r.X == v {
			t.mark(r)
		}
	case *ssa.UnOp:
		if r.Op == token.MUL {
			t.mark(r)
		}
	case *ssa.Store:
		if r.Addr == v {
			t.event(evWrite, r, 0, "", "store through a pointer into the object")
		}
		if r.Val == v {
			if isLocalCell(r.Addr) {
				t.markCell(rootCell(r.Addr))
				// loads of the precise address too
				t.markCell(r.Addr)
			} else if !t.vals[r.Addr] {
				t.event(evRetain, r, 0, "", "reference into the object stored in other memory")
			}
		}
	case *ssa.MapUpdate:
		if r.Map == v {
			t.event(evWrite, r, 0, "", "map update on a map of the object")
		} else if r.Value == v || r.Key == v {
			t.event(evRetain, r, 0, "", "reference into the object stored in a map")
		}
	case *ssa.Send:
		t.event(evRetain, r, 0, "", "reference into the object sent on a channel")
	case *ssa.MakeClosure:
		fn := r.Fn.(*ssa.Function)
		for i, b := range r.Bindings {
			if b == v {
				t.mark(fn.FreeVars[i])
				t.fns[fn] = true
				t.event(evCapture, r, i, fnName(fn), "captured by closure")
			}
		}
	case *ssa.Return:
		for i, res := range r.Results {
			if res != v {
				continue
			}
			t.event(evReturn, r, i, "", "returned")
			fn := r.Parent()
			if n := t.cg.Nodes[fn]; n != nil {
				for _, e := range n.In {
					if e.Site == nil {
						continue
					}
					val := e.Site.Value()
					if val == nil {
						continue
					}
					if len(r.Results) == 1 {
						t.mark(val)
					} else {
						for _, rr := range *val.Referrers() {
							if ex, ok := rr.(*ssa.Extract); ok && ex.Index == i {
								t.mark(ex)
							}
						}
					}
				}
			}
		}
	case ssa.CallInstruction:
		t.call(v, r)
	case *ssa.BinOp, *ssa.If, *ssa.DebugRef, *ssa.Jump:
		// comparisons only
	default:
		t.event(evExternal, r, -1, "", "unrecognised use of a reference into the object")
	}
}

func rootCell(addr ssa.Value) ssa.Value {
	for {
		switch a := addr.(type) {
		case *ssa.FieldAddr:
			addr = a.X
		case *ssa.IndexAddr:
			addr = a.X
		default:
			return addr
		}
	}
}

func (t *taint) call(v ssa.Value, ci ssa.CallInstruction) {
	com := ci.Common()
	if b, ok := com.Value.(*ssa.Builtin); ok {
		for i, a := range com.Args {
			if a != v {
				continue
			}
			switch b.Name() {
			case "len", "cap", "print", "println", "min", "max":
			case "append":
				if i == 0 {
					t.event(evWrite, ci, 0, "append", "append on a slice of the object (writes the shared backing array when capacity allows)")
				}
				if val := ci.Value(); val != nil {
					t.mark(val)
				}
			case "copy":
				if i == 0 {
					t.event(evWrite, ci, 0, "copy", "copy into a slice of the object")
				}
			case "delete", "clear":
				t.event(evWrite, ci, 0, b.Name(), b.Name()+" on a map/slice of the object")
			default:
				t.event(evExternal, ci, i, b.Name(), "builtin")
			}
		}
		return
	}
	callees := t.callees(ci)
	// value used as the function itself (invoke receiver / closure): the receiver of an invoke is com.Value
	if com.IsInvoke() && com.Value == v {
		any := false
		for _, f := range callees {
			if t.isLib(f) && len(f.Params) > 0 {
				t.mark(f.Params[0])
				any = true
			} else if !t.isLib(f) {
				t.event(evExternal, ci, -1, fnName(f), "method invoked on a reference into the object, implemented outside the library")
			}
		}
		if !any && len(callees) == 0 {
			t.event(evExternal, ci, -1, com.Method.FullName(), "interface method with no resolved callee")
		}
	}
	for i, a := range com.Args {
		if a != v {
			continue
		}
		if len(callees) == 0 {
			t.event(evExternal, ci, i, com.Value.Name(), "call with no resolved callee")
			continue
		}
		for _, f := range callees {
			if !t.isLib(f) || f.Blocks == nil {
				t.event(evExternal, ci, i, fnName(f), "passed to a function outside the library")
				continue
			}
			pi := i
			if com.IsInvoke() {
				pi = i + 1
			}
			if f.Signature.Recv() == nil && com.Signature().Recv() != nil {
				// should not happen for static calls
			}
			// bound-method wrappers ($bound) take the receiver as a free variable; params line up with args
			if pi < len(f.Params) {
				t.mark(f.Params[pi])
			}
		}
	}
	// a closure value that carries marked free variables is handled at MakeClosure
}
