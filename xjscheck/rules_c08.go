package main

import (
	"fmt"
	"go/ast"
	"go/constant"
	"go/token"
	"go/types"
	"sort"
	"strings"

	"golang.org/x/tools/go/ssa"
)

func init() {
	register("C08", &propSpec{
		run: runC08,
		explanation: "That every decoded segment points at the same lexeme is not decided end-to-end (it needs a decoder and a run). Decided are the mechanisms it rests on, for every path of every printer: " +
			"R8.1 every mapping a node printer records is for a token field's Start and is immediately followed — on every path, with no layout, comment replay or child in between — by the text of THAT token: a constant whose first lexeme has a token type the parser stores in that field, or a field the parser fills from the same token's literal, or the opening quote of a string class; " +
			"R8.2 only the identifier printer reads Identifier.Value; its named mapping carries the same field it writes next; " +
			"R8.3 every byte appended to the output buffer is accounted to the mapper (same content, same path), and pending layout is flushed before a mapping is recorded; " +
			"R8.4 source positions are token starts (= C10 R10.3, shared obligations); " +
			"R8.5 only the constructor and the Advance methods move the generated position, each by a non-negative amount or to the next line, and mappings are only appended with the current position, so segments are ordered by construction; " +
			"R8.6 the post-pass over the emitted text deletes nothing in front of a recorded position: it may cut line ends, and it may trim the start of the text only because no layout is appended while the output is empty and no printer text with leading blanks can come first (the defect found here — a source starting with a blank line had every segment one generated line too low — is repaired by a fix: commit).",
		notDecided: []string{"decoding the map and comparing lexemes", "multi-byte characters (columns are bytes on both sides; the spec counts UTF-16 units)", "what the post-pass does to the text of multi-line literals (C06 R6.3)"},
	})
}

// firstLexemeType: the token type of the first lexeme of a constant text (maximal munch over the fixed lexemes,
// keywords by identifier characters, string delimiters as their class).
func firstLexemeType(t *tables, text string) (int64, string, bool) {
	if text == "" {
		return 0, "", false
	}
	// identifier-like prefix
	isIdStart := func(b byte) bool { return b == '_' || b == '$' || (b >= 'a' && b <= 'z') || (b >= 'A' && b <= 'Z') }
	isIdPart := func(b byte) bool { return isIdStart(b) || (b >= '0' && b <= '9') }
	if isIdStart(text[0]) {
		i := 1
		for i < len(text) && isIdPart(text[i]) {
			i++
		}
		w := text[:i]
		if k, ok := t.lt.keywords[w]; ok {
			return k, w, true
		}
		return t.tc.byName["IDENT"], w, true
	}
	best := ""
	for l := range t.lt.fixed {
		if strings.HasPrefix(text, l) && len(l) > len(best) {
			best = l
		}
	}
	if best != "" {
		return t.lt.fixed[best], best, true
	}
	if k, ok := t.lt.strDelims[text[0]]; ok {
		return k, text[:1], true
	}
	return 0, "", false
}

// builderFacts: node -> merged parse facts over every method that builds it.
func (c *Ctx) builderFacts(t *tables) map[string][]*parseFacts {
	entries := c.entryTokens(t)
	out := map[string][]*parseFacts{}
	for node, ms := range c.nodeBuilders() {
		for _, m := range ms {
			out[node] = append(out[node], c.parseFactsOf(t, m, node, entries))
		}
	}
	return out
}

func runC08(c *Ctx) {
	t := c.tables()
	c.rule("R8.0", "extractors: printer event trees, parser token-field facts")
	if c.extractorProblems(t, "lexemes", "parser", "printer") {
		return
	}
	pes := c.allPrinterEvents()
	for n, pe := range pes {
		for _, is := range pe.issues {
			c.unres("printer of "+n, token.NoPos, "%s", is)
		}
	}
	facts := c.builderFacts(t)
	c.Tables["E5_printer_events"] = dumpPrinterEvents(pes)
	c.ok("extractors", token.NoPos, "%d printers, %d node builders", len(pes), len(facts))

	c.rule("R8.1", "each mapping is for a token's Start and is immediately followed by that token's text on every path")
	c.floor(20)
	var names []string
	for n := range pes {
		names = append(names, n)
	}
	sort.Strings(names)
	for _, n := range names {
		ruleMappingPairing(c, t, n, pes[n], facts[n])
	}

	c.rule("R8.2", "identifiers carry their name: single reader of Identifier.Value, named mapping = written text")
	c.floor(2)
	ruleIdentifierNames(c, pes)

	c.rule("R8.3", "every output byte is accounted to the mapper; pending layout is flushed before a mapping is recorded")
	c.floor(4)
	ruleBytesAccounted(c)

	c.rule("R8.4", "source positions are token starts (= R10.3)")
	c.floor(30)
	lf := c.lexFacts()
	la := lexerAnchors(c)
	if len(lf.problems) == 0 && la.line != nil {
		r10_3(c, lf, la)
	} else {
		c.unres("lexer analysis", token.NoPos, "not available")
	}

	c.rule("R8.5", "generated position moves only forward, written only by the constructor and the Advance methods; mappings are only appended with the current position")
	c.floor(5)
	ruleMonotonePosition(c)

	c.rule("R8.6", "a post-pass over the emitted text deletes nothing in front of a recorded position: trims of the start of the text require that the output cannot start with whitespace (layout appends guarded by a buffer-non-empty test; no printer text with leading blanks can come first); per-line trims may only cut line ends")
	c.floor(1)
	rulePostPassPositions(c, t)
}

func ruleMappingPairing(c *Ctx, t *tables, node string, pe *printerEvents, facts []*parseFacts) {
	if len(pe.root) == 0 {
		return
	}
	g := buildEvGraph(pe.root)
	n := 0
	flatten(pe.root, func(e *pev, _ []*pev) {
		if e.kind != evMap {
			return
		}
		n++
		key := fmt.Sprintf("%s: mapping #%d of %s", node, n, e.field)
		if !e.start {
			c.bad(key, e.pos, "the mapping does not use the token's Start position")
			return
		}
		// token types the parser stores in that field
		types_ := map[int64]bool{}
		for _, pf := range facts {
			for k := range pf.tokField[e.field] {
				types_[k] = true
			}
		}
		// a kept request (deferred idiom, R8.3) is recorded by the next text writer call: layout, comment replay and
		// the terminator request append with the emit primitives and leave it pending
		deferred := c.mappingDeferred()
		next := g.nextVisible(e, func(x *pev) bool {
			return deferred && (x.kind == evLayout || x.kind == evComments || x.kind == evTerm)
		})
		if len(next) == 0 {
			c.bad(key, e.pos, "nothing is written after the mapping")
			return
		}
		var problems []string
		for _, nx := range next {
			switch nx.kind {
			case evLit:
				tt, lex, ok := firstLexemeType(t, nx.text)
				switch {
				case !ok:
					problems = append(problems, fmt.Sprintf("followed by %q, which does not start with a lexeme", nx.text))
				case len(types_) == 0:
					problems = append(problems, fmt.Sprintf("the parser stores no token in field %s (cannot tie %q to it)", e.field, lex))
				case !types_[tt]:
					problems = append(problems, fmt.Sprintf("followed by %q (%s) but field %s holds %s", lex, t.tc.name(tt), e.field, tokSetNames(t.tc, types_)))
				}
			case evText:
				if why := textIsTokenText(c, t, nx, e, g, facts, types_); why != "" {
					problems = append(problems, why)
				}
			case evLayout:
				problems = append(problems, "a layout write ("+nx.text+") comes between the mapping and the token's text: in pretty mode the segment points at the layout byte, one column early")
			case evComments:
				problems = append(problems, "comments are replayed between the mapping and the token's text")
			case evChild:
				problems = append(problems, "a child ("+nx.field+") is printed between the mapping and the token's text")
			default:
				if nx == endEv {
					problems = append(problems, "the printer can end right after the mapping")
				} else {
					problems = append(problems, "followed by "+nx.String())
				}
			}
		}
		if len(problems) > 0 {
			c.bad(key, e.pos, "%s", strings.Join(dedupSorted(problems), "; "))
		} else {
			c.ok(key, e.pos, "followed on every path by the text of %s (%s)", e.field, tokSetNames(t.tc, types_))
		}
	})
}

// mappingDeferred: AddMapping keeps the request instead of calling the mapper itself (see R8.3).
func (c *Ctx) mappingDeferred() bool {
	c.buildSSA()
	f := c.fn("(*ast.CodeWriter).AddMapping")
	if f == nil {
		return false
	}
	direct := false
	allInstrs(f, func(_ *ssa.BasicBlock, _ int, in ssa.Instruction) {
		if call, ok := in.(*ssa.Call); ok {
			if cal := call.Call.StaticCallee(); cal != nil && pkgPathOf(cal) == modPath+"/sourcemap" {
				direct = true
			}
		}
	})
	return !direct
}

// textIsTokenText: the non-constant text written after a mapping is the mapped token's own text.
func textIsTokenText(c *Ctx, t *tables, tx, m *pev, g *evGraph, facts []*parseFacts, types_ map[int64]bool) string {
	// <tok>.Literal of the same token field
	if tx.field == m.field+".Literal" {
		return ""
	}
	// named mapping: the written field is the name
	if m.name != "" && tx.field == m.name {
		return ""
	}
	// a field the parser fills from the token's literal at entry, or by a switch on the token type whose constants,
	// concatenated with the literal text that follows, lex to the token
	for _, pf := range facts {
		switch pf.fieldSrc[tx.field] {
		case "literal":
			continue
		default:
			vals := c.constantFieldValues(pf.method, pf.node, tx.field)
			if len(vals) == 0 {
				return fmt.Sprintf("followed by the text of field %s, which the parser does not fill from the token's literal", tx.field)
			}
			// following literal
			suffix := ""
			for _, nx := range g.nextVisible(tx, func(x *pev) bool { return x.kind == evMap }) {
				if nx.kind == evLit {
					suffix = nx.text
				}
			}
			for _, v := range vals {
				tt, lex, ok := firstLexemeType(t, v+suffix)
				if !ok || !types_[tt] || lex != v+suffix {
					return fmt.Sprintf("field %s = %q followed by %q does not spell a token stored in %s", tx.field, v, suffix, m.field)
				}
			}
		}
	}
	return ""
}

// constantFieldValues: string constants assigned to node.<field> in the parse method.
func (c *Ctx) constantFieldValues(m *types.Func, node, field string) []string {
	fd := c.declIdx[m]
	info := c.Pkgs["parser"].TypesInfo
	var out []string
	ast.Inspect(fd.Body, func(n ast.Node) bool {
		as, ok := n.(*ast.AssignStmt)
		if !ok || len(as.Lhs) != 1 || len(as.Rhs) != 1 {
			return true
		}
		sel, ok := as.Lhs[0].(*ast.SelectorExpr)
		if !ok || sel.Sel.Name != field {
			return true
		}
		if v, ok := constOfExpr(info, as.Rhs[0]); ok && v.Kind() == constant.String {
			out = append(out, constant.StringVal(v))
		}
		return true
	})
	return out
}

func ruleIdentifierNames(c *Ctx, pes map[string]*printerEvents) {
	c.buildSSA()
	val := c.fieldByName("ast", "Identifier", "Value")
	idw := c.fn("(*ast.Identifier).WriteTo")
	if val == nil || idw == nil {
		c.unres("Identifier", token.NoPos, "Identifier.Value or its printer not found")
		return
	}
	readers := map[string]bool{}
	for _, f := range c.libFunctions("ast", "compiler", "debug", "sourcemap") {
		allInstrs(f, func(_ *ssa.BasicBlock, _ int, in ssa.Instruction) {
			if u, ok := in.(*ssa.UnOp); ok {
				if _, ok := isFieldLoad(u, val); ok {
					readers[fnName(f)] = true
				}
			}
		})
	}
	only := len(readers) == 1 && readers[fnName(idw)]
	c.check(only, "Identifier.Value is read only by the identifier printer", idw.Pos(), "every other printer emits identifiers by delegating to it", "Identifier.Value is written to the output outside the identifier printer ("+strings.Join(sortedKeys(readers), ", ")+"): that occurrence has no named segment")
	pe := pes["Identifier"]
	ok := false
	if pe != nil {
		g := buildEvGraph(pe.root)
		flatten(pe.root, func(e *pev, _ []*pev) {
			if e.kind == evMap && e.name != "" {
				nx := g.nextVisible(e, func(*pev) bool { return false })
				if len(nx) == 1 && nx[0].kind == evText && nx[0].field == e.name && e.name == "Value" {
					ok = true
				}
			}
		})
	}
	c.check(ok, "identifier printer: named mapping carries the written name", idw.Pos(), "AddNamedMapping(…, Value) immediately followed by the write of Value", "the identifier's segment does not carry, as its name, the same field that is written next")
}

// ruleBytesAccounted: every strings.Builder write on the writer's buffer is matched by a mapper advance of the same content.
func ruleBytesAccounted(c *Ctx) {
	c.buildSSA()
	bufFld := c.fieldByName("ast", "CodeWriter", "Builder")
	mapFld := c.fieldByName("ast", "CodeWriter", "Mapper")
	if bufFld == nil || mapFld == nil {
		c.unres("writer fields", token.NoPos, "CodeWriter.Builder / Mapper not found")
		return
	}
	isBufWrite := func(call *ssa.Call) bool {
		cal := call.Call.StaticCallee()
		if cal == nil || pkgPathOf(cal) != "strings" || !strings.HasPrefix(cal.Name(), "Write") || len(call.Call.Args) < 2 {
			return false
		}
		fa, ok := call.Call.Args[0].(*ssa.FieldAddr)
		return ok && fieldOfAddr(fa) == bufFld
	}
	for _, f := range c.libFunctions("ast", "compiler", "debug") {
		n := 0
		allInstrs(f, func(b *ssa.BasicBlock, _ int, in ssa.Instruction) {
			call, ok := in.(*ssa.Call)
			if !ok || !isBufWrite(call) {
				return
			}
			n++
			key := fmt.Sprintf("%s: buffer write #%d", fnName(f), n)
			content := call.Call.Args[1]
			// an advance of the same content later in the function, reached on every path on which the mapper is present
			matched := false
			allInstrs(f, func(b2 *ssa.BasicBlock, _ int, in2 ssa.Instruction) {
				adv, ok := in2.(*ssa.Call)
				if !ok {
					return
				}
				cal := adv.Call.StaticCallee()
				if cal == nil || pkgPathOf(cal) != modPath+"/sourcemap" || !strings.HasPrefix(cal.Name(), "Advance") {
					return
				}
				if !instrReachableAfter(call, adv) {
					return
				}
				switch cal.Name() {
				case "AdvanceString":
					if adv.Call.Args[1] == content {
						matched = true
					}
				case "AdvanceColumn", "AdvanceLine":
					// rune write: line for '\n', one column otherwise
					if isRuneLike(content) {
						matched = true
					}
				}
			})
			if matched {
				c.ok(key, call.Pos(), "followed by a mapper advance of the same content")
			} else {
				c.bad(key, call.Pos(), "bytes are appended to the output without advancing the source mapper: every mapping recorded afterwards has a generated position that is too small (wrong column on the same line, wrong line after a line break)")
			}
		})
	}
	// where a mapping is recorded relative to the bytes the writer itself may put in front of a text
	reachesEmit := map[*ssa.Function]bool{}
	for _, f := range c.libFunctions("ast") {
		allInstrs(f, func(_ *ssa.BasicBlock, _ int, in ssa.Instruction) {
			if call, ok := in.(*ssa.Call); ok && isBufWrite(call) {
				reachesEmit[f] = true
			}
		})
	}
	for changed := true; changed; {
		changed = false
		for _, f := range c.libFunctions("ast") {
			if reachesEmit[f] {
				continue
			}
			allInstrs(f, func(_ *ssa.BasicBlock, _ int, in ssa.Instruction) {
				if call, ok := in.(*ssa.Call); ok && reachesEmit[call.Call.StaticCallee()] && !reachesEmit[f] {
					reachesEmit[f] = true
					changed = true
				}
			})
		}
	}
	callsMapperAdd := func(f *ssa.Function) bool {
		hit := false
		allInstrs(f, func(_ *ssa.BasicBlock, _ int, in ssa.Instruction) {
			if call, ok := in.(*ssa.Call); ok {
				if cal := call.Call.StaticCallee(); cal != nil && pkgPathOf(cal) == modPath+"/sourcemap" && strings.HasPrefix(cal.Name(), "Add") {
					hit = true
				}
			}
		})
		return hit
	}
	flush := c.fn("(*ast.CodeWriter).flushPending")
	immediate := false
	for _, name := range []string{"(*ast.CodeWriter).AddMapping", "(*ast.CodeWriter).AddNamedMapping"} {
		f := c.fn(name)
		if f == nil {
			c.unres(name, token.NoPos, "not found")
			continue
		}
		if !callsMapperAdd(f) {
			c.ok(name+": keeps the request for the text written next", f.Pos(), "does not record itself; the text writers record it in front of the text (obligations below)")
			continue
		}
		immediate = true
		var rec, fl ssa.Instruction
		allInstrs(f, func(_ *ssa.BasicBlock, _ int, in ssa.Instruction) {
			if call, ok := in.(*ssa.Call); ok {
				if cal := call.Call.StaticCallee(); cal != nil {
					if pkgPathOf(cal) == modPath+"/sourcemap" {
						rec = call
					}
					if flush != nil && cal == flush {
						fl = call
					}
				}
			}
		})
		c.check(rec != nil && fl != nil && instrDominates(fl, rec), name+": pending layout flushed before recording", f.Pos(), "flushPending dominates the mapper call", "a mapping is recorded while layout (newline/indent/space) is still pending: the recorded generated position lies BEFORE that layout, not at the token")
	}
	// a kept request reaches the mapper unchanged: line as line, column as column, name as name
	if !immediate {
		if bt, _ := bookkeepingRequestTypes(c); len(bt) > 0 {
			for k := range bt {
				bookkeepingTypes[k] = true
			}
		}
		origin := map[*types.Var]string{} // request field -> what the setters store there
		conflict := ""
		note := func(fld *types.Var, what string) {
			if old, ok := origin[fld]; ok && old != what {
				conflict = fmt.Sprintf("field %s receives %s in one setter and %s in another", fld.Name(), old, what)
			}
			origin[fld] = what
		}
		for _, name := range []string{"(*ast.CodeWriter).AddMapping", "(*ast.CodeWriter).AddNamedMapping"} {
			f := c.fn(name)
			if f == nil {
				continue
			}
			allInstrs(f, func(_ *ssa.BasicBlock, _ int, in ssa.Instruction) {
				st, ok := in.(*ssa.Store)
				if !ok {
					return
				}
				fa, ok := st.Addr.(*ssa.FieldAddr)
				if !ok || isSourcemapPkgType(fa.X.Type()) || !isSourcemapType(fa.X.Type()) {
					return
				}
				v := unwrap(st.Val)
				switch x := v.(type) {
				case *ssa.Field: // pos.Line / pos.Column of a token.Position parameter
					if stt, ok := x.X.Type().Underlying().(*types.Struct); ok {
						note(fieldOfAddr(fa), stt.Field(x.Field).Name())
					}
				case *ssa.UnOp:
					if fa2, ok := x.X.(*ssa.FieldAddr); ok {
						note(fieldOfAddr(fa), fieldOfAddr(fa2).Name())
					}
				case *ssa.Parameter:
					// positional meaning by the exported API's parameter order: (line, column, name)
					for i, p := range f.Params[1:] {
						if p == x {
							note(fieldOfAddr(fa), []string{"Line", "Column", "name"}[min(i, 2)])
						}
					}
				}
			})
		}
		for _, f := range c.libFunctions("ast") {
			if !callsMapperAdd(f) {
				continue
			}
			allInstrs(f, func(_ *ssa.BasicBlock, _ int, in ssa.Instruction) {
				call, ok := in.(*ssa.Call)
				if !ok {
					return
				}
				cal := call.Call.StaticCallee()
				if cal == nil || pkgPathOf(cal) != modPath+"/sourcemap" || !strings.HasPrefix(cal.Name(), "Add") {
					return
				}
				want := []string{"Line", "Column", "name"}
				var got []string
				good := conflict == ""
				for i, a := range call.Call.Args[1:] {
					what := "?"
					if u, ok := unwrap(a).(*ssa.UnOp); ok {
						if fa, ok := u.X.(*ssa.FieldAddr); ok {
							what = origin[fieldOfAddr(fa)]
						}
					}
					got = append(got, what)
					if i < len(want) && what != want[i] {
						good = false
					}
				}
				key := fmt.Sprintf("%s: request passed to %s unchanged", fnName(f), cal.Name())
				c.check(good, key, call.Pos(), "arguments carry "+strings.Join(got, ", "), fmt.Sprintf("the mapper receives (%s) where (Line, Column[, name]) of the requested position is required %s", strings.Join(got, ", "), conflict))
			})
		}
	}
	// the text writers: exported writer methods that hand their own parameter to a buffer-appending helper
	textWriters := map[*ssa.Function]bool{}
	for _, f := range c.libFunctions("ast") {
		if f.Signature.Recv() == nil || !namedIs(f.Signature.Recv().Type(), "ast", "CodeWriter") || len(f.Params) != 2 || f.Object() == nil || !f.Object().Exported() {
			continue
		}
		allInstrs(f, func(_ *ssa.BasicBlock, _ int, in ssa.Instruction) {
			if call, ok := in.(*ssa.Call); ok {
				if cal := call.Call.StaticCallee(); cal != nil && cal.Pkg == f.Pkg && len(call.Call.Args) == 2 && call.Call.Args[1] == ssa.Value(f.Params[1]) && reachesEmit[cal] {
					textWriters[f] = true
				}
			}
		})
	}
	if !immediate {
		// a kept request belongs to the next text a PRINTER writes: comment replay, layout and the terminator request
		// must neither record it nor write through the text writers (which would record it in front of their own text)
		semiW := c.fn("(*ast.CodeWriter).WriteSemi")
		clean := true
		for _, f := range c.libFunctions("ast") {
			if f.Signature.Recv() == nil || !namedIs(f.Signature.Recv().Type(), "ast", "CodeWriter") || textWriters[f] || f == semiW {
				continue
			}
			// a private piece of the text writers' prologue (called by nothing else) is judged with them
			if obj := f.Object(); obj != nil && !obj.Exported() {
				onlyTW, any := true, false
				for _, g := range c.libFunctions() {
					allInstrs(g, func(_ *ssa.BasicBlock, _ int, in ssa.Instruction) {
						if ci, ok := in.(ssa.CallInstruction); ok && ci.Common().StaticCallee() == f {
							any = true
							if !textWriters[g] {
								onlyTW = false
							}
						}
					})
				}
				if _, closed := c.argsAtCallers(f, 0); closed && any && onlyTW {
					continue
				}
			}
			allInstrs(f, func(_ *ssa.BasicBlock, _ int, in ssa.Instruction) {
				call, ok := in.(*ssa.Call)
				if !ok {
					return
				}
				cal := call.Call.StaticCallee()
				if cal == nil || !(textWriters[cal] || (callsMapperAdd(cal) && cal.Pkg == f.Pkg)) {
					return
				}
				clean = false
				c.bad(fmt.Sprintf("%s: calls %s", fnName(f), cal.Name()), call.Pos(), "a writer method that is not a text writer records the kept mapping or writes through a text writer: the segment requested for the next token is recorded in front of a comment, layout or separator instead")
			})
		}
		if clean {
			c.ok("kept request is recorded only by the text writers", token.NoPos, "comment replay, layout and terminator methods append with the emit primitives")
		}
	}
	for _, f := range c.libFunctions("ast") {
		if f.Signature.Recv() == nil || !namedIs(f.Signature.Recv().Type(), "ast", "CodeWriter") || len(f.Params) != 2 || f.Object() == nil || !f.Object().Exported() {
			continue
		}
		par := f.Params[1]
		var emit *ssa.Call
		var recCalls, others []*ssa.Call
		allInstrs(f, func(_ *ssa.BasicBlock, _ int, in ssa.Instruction) {
			call, ok := in.(*ssa.Call)
			if !ok {
				return
			}
			cal := call.Call.StaticCallee()
			if cal == nil || cal.Pkg != f.Pkg {
				return
			}
			switch {
			case len(call.Call.Args) == 2 && call.Call.Args[1] == ssa.Value(par) && reachesEmit[cal]:
				emit = call
			case callsMapperAdd(cal):
				recCalls = append(recCalls, call)
			case reachesEmit[cal]:
				others = append(others, call)
			}
		})
		if emit == nil {
			continue
		}
		key := fmt.Sprintf("%s: the mapping is recorded directly in front of the text", f.Name())
		switch {
		case immediate:
			// the request was recorded by AddMapping: nothing but the (already flushed) pending layout may be written before the text
			var bad []string
			for _, o := range others {
				if o.Call.StaticCallee() != flush && instrReachableAfter(o, emit) {
					bad = append(bad, o.Call.StaticCallee().Name())
				}
			}
			c.check(len(bad) == 0, key, emit.Pos(), "the writer puts nothing between a recorded mapping and the text", fmt.Sprintf("the mapping is recorded by AddMapping, but %s writes bytes in front of the text afterwards (%s): the segment points at the inserted byte, one column before its lexeme", f.Name(), strings.Join(bad, ", ")))
		case len(recCalls) != 1:
			// the prologue may have been moved into helpers: fold it for the states in which the writer inserts a
			// separator, the omitted ';' or nothing, and look where the mapping is recorded
			if why := foldedRecordingOrder(c, f); why == "" {
				c.ok(key, emit.Pos(), "by folding the prologue for the separator / omitted-semicolon / plain states: recorded exactly once, after every inserted byte and immediately before the text")
			} else {
				c.bad(key, emit.Pos(), "the text writer does not record the requested mapping exactly once directly before emitting (%d direct recording calls; folding the prologue: %s): segments are lost, doubled or point at an inserted byte", len(recCalls), why)
			}
		default:
			r := recCalls[0]
			var bad []string
			for _, o := range others {
				if instrReachableAfter(r, o) && instrReachableAfter(o, emit) {
					bad = append(bad, o.Call.StaticCallee().Name())
				}
			}
			okOrder := instrDominates(r, emit)
			switch {
			case !okOrder:
				c.bad(key, r.Pos(), "the recording call does not dominate the emit: on some path the text is written without its mapping, or the mapping is recorded after the text")
			case len(bad) > 0:
				c.bad(key, r.Pos(), "between recording the mapping and writing the text the writer can still insert bytes (%s): the segment points at the inserted byte", strings.Join(bad, ", "))
			default:
				var before []string
				for _, o := range others {
					before = append(before, o.Call.StaticCallee().Name())
				}
				c.ok(key, r.Pos(), "recorded after %s and immediately before the text", strings.Join(before, ", "))
			}
		}
	}
}

func isRuneLike(v ssa.Value) bool {
	b, ok := v.Type().Underlying().(*types.Basic)
	return ok && (b.Kind() == types.Int32 || b.Kind() == types.Uint8)
}

func ruleMonotonePosition(c *Ctx) {
	c.buildSSA()
	line := c.fieldByName("sourcemap", "SourceMapper", "generatedLine")
	col := c.fieldByName("sourcemap", "SourceMapper", "generatedColumn")
	maps := c.fieldByType("sourcemap", "SourceMapper", func(t types.Type) bool {
		s, ok := t.Underlying().(*types.Slice)
		return ok && namedIs(s.Elem(), "sourcemap", "Mapping")
	})
	if line == nil || col == nil || maps == nil {
		c.unres("mapper fields", token.NoPos, "generatedLine/generatedColumn/mappings not found")
		return
	}
	for _, f := range c.libFunctions() {
		n := 0
		allInstrs(f, func(_ *ssa.BasicBlock, _ int, in ssa.Instruction) {
			st, ok := in.(*ssa.Store)
			if !ok {
				return
			}
			fa, ok := st.Addr.(*ssa.FieldAddr)
			if !ok {
				return
			}
			fld := fieldOfAddr(fa)
			if fld != line && fld != col && fld != maps {
				return
			}
			n++
			key := fmt.Sprintf("%s: write #%d of %s", fnName(f), n, fld.Name())
			inPkg := pkgPathOf(f) == modPath+"/sourcemap"
			switch {
			case !inPkg:
				c.bad(key, st.Pos(), "written outside package sourcemap")
			case fld == maps:
				app, isApp := isBuiltinCall(st.Val, "append")
				good := false
				if isApp {
					_, good = isFieldLoad(app.Call.Args[0], maps)
				}
				if el, ok := sliceLitElems(st.Val); ok && len(el) == 0 {
					good = true
				}
				c.check(good, key, st.Pos(), "mappings are only appended (or initialised empty)", "the mapping list is modified other than by appending: segments can get out of order")
			default:
				good := false
				if k, ok := constInt64(st.Val); ok && k == 0 {
					good = true // column reset together with a line increment, or the constructor
				}
				if bo, ok := st.Val.(*ssa.BinOp); ok && bo.Op == token.ADD {
					if _, ok := isFieldLoad(bo.X, fld); ok {
						if k, ok := constInt64(bo.Y); ok && k >= 0 {
							good = true
						}
						if p, ok := bo.Y.(*ssa.Parameter); ok {
							good = nonNegativeAtCallers(c, f, p)
						}
						if _, isLen := isBuiltinCall(bo.Y, "len"); isLen {
							good = true // a length is never negative
						}
					}
				}
				c.check(good, key, st.Pos(), "moves forward (or starts a new line at column 0)", "the generated position can move backwards: segments are no longer ordered by generated position")
			}
		})
	}
	// the positions stored in a mapping are the current ones: every Mapping built in the library gets both generated
	// coordinates, and every store to them is a read of the mapper's current position
	nlit := 0
	for _, f := range c.libFunctions() {
		nf := 0
		allInstrs(f, func(_ *ssa.BasicBlock, _ int, in ssa.Instruction) {
			al, ok := in.(*ssa.Alloc)
			if !ok || !namedIs(al.Type(), "sourcemap", "Mapping") {
				return
			}
			if n := namedOf(deref(al.Type())); n == nil || n.Obj().Name() != "Mapping" {
				return
			}
			whole := false
			okL, okC, hasL, hasC := false, false, false, false
			for _, r := range *al.Referrers() {
				switch x := r.(type) {
				case *ssa.Store:
					if x.Addr == ssa.Value(al) {
						whole = true // initialised from another mapping value (judged where that one is built)
					}
				case *ssa.FieldAddr:
					for _, r2 := range *x.Referrers() {
						st, ok := r2.(*ssa.Store)
						if !ok || st.Addr != ssa.Value(x) {
							continue
						}
						switch fieldOfAddr(x).Name() {
						case "GeneratedLine":
							hasL = true
							_, okL = isFieldLoad(st.Val, line)
						case "GeneratedColumn":
							hasC = true
							_, okC = isFieldLoad(st.Val, col)
						}
					}
				}
			}
			nf++
			nlit++
			key := fmt.Sprintf("%s: mapping value #%d records the current generated position", fnName(f), nf)
			switch {
			case whole && !hasL && !hasC:
				c.ok(key, al.Pos(), "copy of a mapping built elsewhere; its generated position is not touched")
			case whole:
				c.check((!hasL || okL) && (!hasC || okC), key, al.Pos(), "copy whose generated position is re-read from the mapper", "a mapping's generated position is overwritten with something other than the mapper's current position")
			default:
				c.check(okL && okC, key, al.Pos(), "GeneratedLine/Column = the mapper's current position", "a mapping is recorded with something other than the current generated position")
			}
		})
	}
	for _, f := range c.libFunctions() {
		n := 0
		allInstrs(f, func(_ *ssa.BasicBlock, _ int, in ssa.Instruction) {
			st, ok := in.(*ssa.Store)
			if !ok {
				return
			}
			fa, ok := st.Addr.(*ssa.FieldAddr)
			if !ok || !namedIs(fa.X.Type(), "sourcemap", "Mapping") {
				return
			}
			if _, isAlloc := fa.X.(*ssa.Alloc); isAlloc {
				return
			}
			var cur *types.Var
			switch fieldOfAddr(fa).Name() {
			case "GeneratedLine":
				cur = line
			case "GeneratedColumn":
				cur = col
			default:
				return
			}
			n++
			_, okv := isFieldLoad(st.Val, cur)
			c.check(okv, fmt.Sprintf("%s: in-place write #%d of a recorded generated position", fnName(f), n), st.Pos(), "re-read from the mapper", "the generated position of an already recorded mapping is overwritten")
		})
	}
	if nlit == 0 {
		c.unres("mapping values", token.NoPos, "no sourcemap.Mapping value is built in the library")
	}
}

// nonNegativeAtCallers: every library call site passes a non-negative constant for parameter p of f.
func nonNegativeAtCallers(c *Ctx, f *ssa.Function, p *ssa.Parameter) bool {
	idx := -1
	for i, q := range f.Params {
		if q == p {
			idx = i
		}
	}
	ok := true
	sites := 0
	for _, g := range c.libFunctions() {
		allInstrs(g, func(_ *ssa.BasicBlock, _ int, in ssa.Instruction) {
			if call, isCall := in.(*ssa.Call); isCall && call.Call.StaticCallee() == f {
				sites++
				if k, isK := constInt64(call.Call.Args[idx]); !isK || k < 0 {
					ok = false
				}
			}
		})
	}
	return ok && sites > 0
}

// rulePostPassPositions: R8.6.
func rulePostPassPositions(c *Ctx, t *tables) {
	c.buildSSA()
	w := c.writerCfg()
	if w == nil {
		c.unres("writer fields", token.NoPos, "CodeWriter fields not found")
		return
	}
	var compile *ssa.Function
	for _, f := range c.libFunctions("compiler") {
		allInstrs(f, func(_ *ssa.BasicBlock, _ int, in ssa.Instruction) {
			if al, ok := in.(*ssa.Alloc); ok && namedIs(al.Type(), "ast", "CodeWriter") {
				compile = f
			}
		})
	}
	if compile == nil {
		c.unres("compile function", token.NoPos, "no function of package compiler allocates an ast.CodeWriter")
		return
	}
	var passes []*ssa.Function
	allInstrs(compile, func(_ *ssa.BasicBlock, _ int, in ssa.Instruction) {
		call, ok := in.(*ssa.Call)
		if !ok {
			return
		}
		cal := call.Call.StaticCallee()
		if cal == nil || !isLibPath(pkgPathOf(cal)) || cal.Signature.Recv() != nil || len(cal.Params) != 1 || cal.Signature.Results().Len() != 1 {
			return
		}
		if b, ok := cal.Params[0].Type().Underlying().(*types.Basic); !ok || b.Kind() != types.String {
			return
		}
		passes = append(passes, cal)
	})
	if len(passes) == 0 {
		c.ok("post-passes", compile.Pos(), "the compile function applies no post-pass to the emitted text")
		return
	}
	startTrim := false
	for _, pf := range passes {
		allInstrs(pf, func(_ *ssa.BasicBlock, _ int, in ssa.Instruction) {
			call, ok := in.(*ssa.Call)
			if !ok {
				return
			}
			cal := call.Call.StaticCallee()
			if cal == nil || pkgPathOf(cal) != "strings" {
				return
			}
			whole := call.Call.Args[0] == ssa.Value(pf.Params[0])
			perLine := derivesFromSplitElement(call.Call.Args[0])
			key := fmt.Sprintf("%s: strings.%s", fnName(pf), cal.Name())
			switch cal.Name() {
			case "Split", "Join", "SplitN", "SplitAfter":
			case "TrimSpace", "Trim", "TrimLeft", "TrimPrefix", "TrimLeftFunc", "TrimFunc":
				switch {
				case whole:
					startTrim = true
					c.ok(key+" on the whole text", call.Pos(), "cuts the start of the text: allowed only because the output cannot start with whitespace (obligations below)")
				case perLine:
					c.bad(key+" per line", call.Pos(), "cuts the start of every line after the generated columns were recorded: every segment on an indented line points too far right")
				default:
					c.unres(key, call.Pos(), "trim applied to something that is neither the whole text nor a line of it")
				}
			case "TrimRight", "TrimSuffix", "TrimRightFunc":
				c.ok(key, call.Pos(), "cuts only the end of the text / of a line, behind the last recorded position on it (a position is recorded right before a token's text: R8.1)")
			default:
				c.unres(key, call.Pos(), "effect on recorded positions not classified")
			}
		})
	}
	// the post-pass keeps the line structure: what it returns is the Join of the very slice Split produced (elements
	// may be rewritten in place), so no line is dropped, added or reordered after generated lines were recorded
	for _, pf := range passes {
		var splits, joins []*ssa.Call
		allInstrs(pf, func(_ *ssa.BasicBlock, _ int, in ssa.Instruction) {
			if call, ok := in.(*ssa.Call); ok {
				if cal := call.Call.StaticCallee(); cal != nil && pkgPathOf(cal) == "strings" {
					switch {
					case strings.HasPrefix(cal.Name(), "Split"):
						splits = append(splits, call)
					case cal.Name() == "Join":
						joins = append(joins, call)
					}
				}
			}
		})
		key := fmt.Sprintf("%s: line structure preserved", fnName(pf))
		switch {
		case len(splits) == 0 && len(joins) == 0:
			c.ok(key, pf.Pos(), "the post-pass does not take the text apart")
		case len(splits) == 1 && len(joins) == 1 && joins[0].Call.Args[0] == ssa.Value(splits[0]):
			sepS, ok1 := constText(splits[0].Call.Args[1])
			sepJ, ok2 := constText(joins[0].Call.Args[1])
			c.check(ok1 && ok2 && sepS == sepJ, key, joins[0].Pos(), fmt.Sprintf("joins the slice it split, with the same separator %q", sepS), "the text is split and joined with different separators: line breaks are added or removed after generated lines were recorded")
		default:
			pos := pf.Pos()
			if len(joins) > 0 {
				pos = joins[0].Pos()
			}
			c.bad(key, pos, "the post-pass joins something other than the slice it obtained by splitting (lines can be dropped, added or merged): every segment behind such a line has a generated line that no longer matches the code")
		}
	}
	if !startTrim {
		return
	}
	// (b) layout appends are guarded by a buffer-non-empty test
	isBufWrite := func(call *ssa.Call) bool {
		cal := call.Call.StaticCallee()
		if cal == nil || pkgPathOf(cal) != "strings" || !strings.HasPrefix(cal.Name(), "Write") || len(call.Call.Args) < 2 {
			return false
		}
		fa, ok := call.Call.Args[0].(*ssa.FieldAddr)
		return ok && fieldOfAddr(fa) == w.buf
	}
	isWriter := func(f *ssa.Function) bool {
		return f.Signature.Recv() != nil && namedIs(f.Signature.Recv().Type(), "ast", "CodeWriter")
	}
	prims := map[*ssa.Function]bool{}
	for _, f := range c.libFunctions("ast") {
		if !isWriter(f) || len(f.Params) != 2 {
			continue
		}
		allInstrs(f, func(_ *ssa.BasicBlock, _ int, in ssa.Instruction) {
			if call, ok := in.(*ssa.Call); ok && isBufWrite(call) && call.Call.Args[1] == ssa.Value(f.Params[1]) && (f.Object() == nil || !f.Object().Exported()) {
				prims[f] = true
			}
		})
	}
	// bufNonEmptyEdge: the successor index of block b taken when the buffer is known to be non-empty
	bufLen := func(v ssa.Value) bool {
		call, ok := v.(*ssa.Call)
		if !ok {
			return false
		}
		if cal := call.Call.StaticCallee(); cal != nil && pkgPathOf(cal) == "strings" && cal.Name() == "Len" {
			fa, ok := call.Call.Args[0].(*ssa.FieldAddr)
			return ok && fieldOfAddr(fa) == w.buf
		}
		if lc, ok := isBuiltinCall(v, "len"); ok {
			if sc, ok := lc.Call.Args[0].(*ssa.Call); ok {
				if cal := sc.Call.StaticCallee(); cal != nil && pkgPathOf(cal) == "strings" && cal.Name() == "String" {
					fa, ok := sc.Call.Args[0].(*ssa.FieldAddr)
					return ok && fieldOfAddr(fa) == w.buf
				}
			}
		}
		return false
	}
	nonEmptyEdge := func(b *ssa.BasicBlock) int {
		iff := blockIf(b)
		if iff == nil {
			return -1
		}
		cond, neg := iff.Cond, false
		for {
			if u, ok := cond.(*ssa.UnOp); ok && u.Op == token.NOT {
				cond, neg = u.X, !neg
				continue
			}
			break
		}
		// a one-line predicate of the writer (`func (cw) atStart() bool { return cw.Builder.Len() == 0 }`) is read through
		if call, ok := cond.(*ssa.Call); ok && !call.Call.IsInvoke() {
			if cal := call.Call.StaticCallee(); cal != nil && cal.Blocks != nil && len(cal.Blocks) == 1 && len(call.Call.Args) == 1 && cal.Signature.Recv() != nil {
				if ret, ok := cal.Blocks[0].Instrs[len(cal.Blocks[0].Instrs)-1].(*ssa.Return); ok && len(ret.Results) == 1 {
					cond = ret.Results[0]
					for {
						if u, ok := cond.(*ssa.UnOp); ok && u.Op == token.NOT {
							cond, neg = u.X, !neg
							continue
						}
						break
					}
				}
			}
		}
		bo, ok := cond.(*ssa.BinOp)
		if !ok || !bufLen(bo.X) {
			return -1
		}
		k, ok := constInt64(bo.Y)
		if !ok {
			return -1
		}
		edge := -1
		switch {
		case bo.Op == token.GTR && k == 0, bo.Op == token.NEQ && k == 0, bo.Op == token.GEQ && k == 1:
			edge = 0
		case bo.Op == token.EQL && k == 0, bo.Op == token.LEQ && k == 0, bo.Op == token.LSS && k == 1:
			edge = 1
		}
		if edge >= 0 && neg {
			edge = 1 - edge
		}
		return edge
	}
	var guarded func(in ssa.Instruction, depth int) bool
	guarded = func(in ssa.Instruction, depth int) bool {
		f := in.Parent()
		for _, b := range f.Blocks {
			if e := nonEmptyEdge(b); e >= 0 && edgeDominates(b, b.Succs[e], in.Block()) {
				return true
			}
		}
		if depth >= 3 || f.Object() == nil || f.Object().Exported() {
			return false
		}
		sites, all := 0, true
		for _, g := range c.libFunctions() {
			allInstrs(g, func(_ *ssa.BasicBlock, _ int, in2 ssa.Instruction) {
				if ci, ok := in2.(ssa.CallInstruction); ok && ci.Common().StaticCallee() == f {
					sites++
					if !guarded(in2, depth+1) {
						all = false
					}
				}
			})
		}
		return sites > 0 && all
	}
	for _, f := range c.libFunctions("ast") {
		n := 0
		allInstrs(f, func(_ *ssa.BasicBlock, _ int, in ssa.Instruction) {
			call, ok := in.(*ssa.Call)
			if !ok {
				return
			}
			var content ssa.Value
			switch {
			case isBufWrite(call), prims[call.Call.StaticCallee()]:
				content = call.Call.Args[1]
			default:
				return
			}
			v := unwrap(content)
			what := ""
			if s, ok := isWhitespaceConst(v); ok && s != "" {
				what = fmt.Sprintf("whitespace constant %q", s)
			} else if isElemOfField(v, w.pendings) {
				what = "pending layout"
			} else if ok, _ := isIndentValue(v, w.indentS); ok {
				what = "indentation"
			}
			if what == "" {
				return
			}
			n++
			key := fmt.Sprintf("%s: layout append #%d (%s)", fnName(f), n, what)
			c.check(guarded(call, 0), key, call.Pos(), "executed only when the output buffer is known to be non-empty", "layout can be written while the output is still empty: the post-pass trims it from the start of the code after the source mapper counted it, so every segment is shifted (a source starting with a blank line maps its first statement one generated line too low)")
		})
	}
	// (c) no printer text with leading blanks can be the first text of the output
	if !c.extractorProblems(t, "lexemes", "parser", "printer") {
		g := c.grammar(t)
		fm := c.fusionModel(t, g)
		for _, m := range fmodes {
			s := fm.sums[m.name]["Program"]
			if s == nil {
				c.unres("Program: first text ["+m.name+"]", token.NoPos, "no summary for the program printer")
				continue
			}
			_, has := s.first[litSepLex.id()]
			c.check(!has, "Program: first text of the output ["+m.name+"]", token.NoPos, "no constant text with leading blanks can be written first", "a constant text with leading blanks can be the first text of the output: the start trim removes bytes the mapper has counted")
		}
	}
}

// foldedRecordingOrder folds the prologue of text writer f (wfold.go) with a mapper attached and a mapping requested,
// for the states in which the writer inserts a separating space, the omitted semicolon, or nothing. It returns "" when
// in each of them the mapping is recorded exactly once, after all inserted bytes and before the text.
func foldedRecordingOrder(c *Ctx, f *ssa.Function) string {
	pretty := c.fieldByName("ast", "CodeWriter", "PrettyPrint")
	semis := c.fieldByName("ast", "CodeWriter", "WriteSemicolons")
	sg := c.semiGuard()
	type sc struct {
		name string
		s    wScenario
	}
	mk := func(p, ws bool, extra map[*types.Var]constant.Value) map[*types.Var]constant.Value {
		m := map[*types.Var]constant.Value{}
		if pretty != nil {
			m[pretty] = constant.MakeBool(p)
		}
		if semis != nil {
			m[semis] = constant.MakeBool(ws)
		}
		for k, v := range extra {
			m[k] = v
		}
		return m
	}
	scs := []sc{
		{"same sign after a sign (separator)", wScenario{last: '-', next: '-', fields: mk(false, true, nil), mapping: true}},
		{"plain text", wScenario{last: 'a', next: 'b', fields: mk(false, true, nil), mapping: true}},
	}
	if sg != nil && sg.flag != nil {
		scs = append(scs, sc{"statement start after an omitted semicolon", wScenario{last: 'x', next: '(', fields: mk(true, false, map[*types.Var]constant.Value{sg.flag: constant.MakeBool(true)}), mapping: true}})
	}
	for _, x := range scs {
		em, ok, why := c.foldWriterPrologue(f, x.s)
		if !ok {
			return "does not fold (" + why + ")"
		}
		recs := c.lastFoldRecords
		switch {
		case len(recs) != 1:
			return fmt.Sprintf("%s: %d recordings", x.name, len(recs))
		case recs[0] != len(em):
			return fmt.Sprintf("%s: recorded after %d of the %d byte(s) the writer inserts in front of the text", x.name, recs[0], len(em))
		}
	}
	return ""
}
