package main

import (
	"fmt"
	"go/token"
	"go/types"
	"strings"

	"golang.org/x/tools/go/ssa"
)

func init() {
	register("C12", &propSpec{
		run: runC12,
		explanation: "The detectors strict mode relies on, each decided on every path of the current source (a place where acceptance without a check would be silent): " +
			"R12.2 the statement-separator check returns 'terminated' only on an explicit ';' (consumed), '}' or end of input at peek, the peek token following a line break, or tolerant mode — any other accepting path is a violation — and every parser of a node whose printer ends with the optional semicolon reaches that check on every path returning the node; " +
			"R12.3 in the block parser every path to the return has seen '}' as current token, recorded an error, or is in tolerant mode; " +
			"R12.4 the prefix dispatcher records an error on the no-entry path; " +
			"R12.6 (information) expect results that are dropped; " +
			"R12.7 the infix method of '.' parses the property only behind a test of the token that follows the dot, and the refusal of that test records an error (a deleted property name is reported; what the test accepts is not decided). " +
			"The corruption quantifier itself (all programs x deletions/fusions/truncations filtered by a reference JavaScript parser) and the position clause are not decided.",
		notDecided: []string{"the corruption quantifier and the 'no longer valid JavaScript' filter", "the position of the first reported error", "open-class positions (an identifier in a parameter list) are consumed without a type test: listed as information under R12.1, see DESIGN.md"},
	})
}

func runC12(c *Ctx) {
	a := c.parserAnchors()
	c.rule("R12.0", "anchors of package parser")
	for _, p := range a.problems {
		c.unres("anchors", token.NoPos, "%s", p)
	}
	if a.addErrAt == nil || a.tolerant == nil {
		return
	}
	c.ok("anchors", a.addErrAt.Pos(), "separator check %s, error constructor %s", fnName(a.expectSemi), fnName(a.addErrAt))
	c.rule("R12.2", "accept paths of the separator check are exactly: ';' consumed, '}'/EOF at peek, peek after newline, tolerant mode; semicolon-terminated statements reach the check")
	c.floor(6)
	ruleSeparatorAccepts(c, a)
	ruleStatementsReachSeparator(c, a)
	c.rule("R12.3", "block parser: every return has seen '}' as current token, recorded an error, or is in tolerant mode")
	c.floor(1)
	ruleUnclosedBlock(c, a)
	c.rule("R12.4", "prefix dispatcher records an error when no prefix entry exists")
	c.floor(1)
	ruleUnknownPrefix(c, a)
	c.rule("R12.6", "information: expect results that are not branched on")
	ruleExpectResults(c, a)
	t := c.tables()
	if !c.extractorProblems(t, "lexemes", "parser", "printer") {
		g := c.grammar(t)
		c.Tables["A2_parse_paths"] = g.dump(t)
		c.rule("R12.1", "every fixed terminal of a node's printed form is tested on input by the parse path that builds the node (no unchecked advance in terminal position); the statement-list parser of the program stops only at end of input, that of a block only at '}' or (the open block) at the end of input")
		c.floor(25)
		ruleTokenOrder(c, t, g, "checked")
		ruleProgramReachesEOF(c, t, g)
		ruleBlockReachesItsEnd(c, t, g)
		c.rule("R12.7", "a dot access takes a name: the infix method of '.' parses the property only behind a test of the token that follows the dot, and the refusal of that test records an error (what the test accepts is not decided)")
		c.floor(1)
		ruleNameAfterDot(c, a, t)
	}
	if lexerRulesArmed {
		c.rule("R12.5", "unterminated string/backtick literals are observable: the end-of-input exit and the closing-delimiter exit of the scanners are distinguishable downstream")
		c.floor(2)
		ruleUnterminatedObservable(c)
	}
}

// accepting facts of the separator check
func (a *parserAnchors) acceptFact(c *Ctx, at atom, tc *tokConsts, justified map[*ssa.Function]bool) string {
	if at.neg {
		return ""
	}
	switch at.kind {
	case atPeekType:
		switch tc.name(at.k) {
		case "SEMICOLON":
			return "explicit ';'"
		case "EOF":
			return "end of input"
		case "RBRACE":
			return "'}'"
		}
	case atPeekNewline:
		return "line break"
	case atFlag:
		if at.fld == a.tolerant {
			return "tolerant mode"
		}
	case atCall:
		if g := at.call.Call.StaticCallee(); g != nil && justified[g] {
			return "accepted by " + g.Name()
		}
	}
	return ""
}

func isTrueConst(v ssa.Value) bool {
	k, ok := v.(*ssa.Const)
	return ok && k.Value != nil && k.Value.String() == "true"
}

func ruleSeparatorAccepts(c *Ctx, a *parserAnchors) {
	tc := c.tokenConsts()
	justified := map[*ssa.Function]bool{}
	judgePath := func(f *ssa.Function, ret *ssa.Return, facts []pathFact, blocks []*ssa.BasicBlock, np *int, allOKp *bool) {
		*np++
		n := *np
		key := fmt.Sprintf("%s: accepting path #%d", fnName(f), n)
		why := ""
		for _, pf := range facts {
			if w := a.acceptFact(c, pf.at, tc, justified); w != "" {
				why = w
				// an explicit ';' must be consumed on this path
				if w == "explicit ';'" {
					consumed := false
					for _, b := range blocks {
						for _, call := range callsIn(b) {
							if call.Call.StaticCallee() == a.nextTok {
								consumed = true
							}
						}
					}
					if !consumed {
						why = ""
					}
				}
				if why != "" {
					break
				}
			}
		}
		if why == "" {
			*allOKp = false
			c.bad(key, ret.Pos(), "the separator check reports 'terminated' on a path with none of: ';' consumed, '}' or end of input at peek, peek token after a line break, tolerant mode — two statements can fuse on one line without an error")
		} else {
			c.ok(key, ret.Pos(), "justified by: %s", why)
		}
	}
	var judge func(f *ssa.Function, depth int)
	judge = func(f *ssa.Function, depth int) {
		if depth > 3 {
			c.unres(fnName(f)+": nesting", f.Pos(), "separator predicates nested deeper than 3 calls")
			return
		}
		// bool callees used as conditions are judged first
		allInstrs(f, func(_ *ssa.BasicBlock, _ int, in ssa.Instruction) {
			if call, ok := in.(*ssa.Call); ok {
				g := call.Call.StaticCallee()
				if g != nil && g != f && g.Pkg == f.Pkg && g.Signature.Results().Len() == 1 && !a.errRecorders[g] && g != a.nextTok {
					if b, ok := g.Signature.Results().At(0).Type().Underlying().(*types.Basic); ok && b.Kind() == types.Bool {
						if _, done := justified[g]; !done {
							justified[g] = false
							judge(g, depth+1)
						}
					}
				}
			}
		})
		n := 0
		allOK := true
		complete := a.enumPaths(f.Blocks[0], func(facts []pathFact, blocks []*ssa.BasicBlock, last *ssa.BasicBlock) {
			ret, ok := last.Instrs[len(last.Instrs)-1].(*ssa.Return)
			if !ok || len(ret.Results) != 1 {
				return
			}
			v := ret.Results[0]
			if isFalseConst(v) {
				return
			}
			// a computed result (`return terminated || p.tolerant`): one accepting path per way it can be true
			if !isTrueConst(v) {
				if call, ok := v.(*ssa.Call); !ok || !justified[call.Call.StaticCallee()] {
					if alts := a.returnAlternatives(v, facts, blocks, last); len(alts) > 0 {
						for _, ra := range alts {
							if ra.val {
								judgePath(f, ret, ra.facts, blocks, &n, &allOK)
							}
						}
						return
					}
				}
			}
			n++
			var path []string
			for _, b := range blocks {
				path = append(path, fmt.Sprint(b.Index))
			}
			key := fmt.Sprintf("%s: accepting path #%d", fnName(f), n)
			_ = path
			if !isTrueConst(v) {
				if call, ok := v.(*ssa.Call); ok && justified[call.Call.StaticCallee()] {
					c.ok(key, ret.Pos(), "returns the verdict of %s", call.Call.StaticCallee().Name())
					return
				}
				// a returned comparison: treat as unresolved
				c.unres(key, ret.Pos(), "returns a computed value; accepted idioms: return true under a recognised condition, or return <separator predicate>()")
				allOK = false
				return
			}
			n--
			judgePath(f, ret, facts, blocks, &n, &allOK)
		})
		if !complete {
			c.unres(fnName(f)+": path enumeration", f.Pos(), "too many paths")
			allOK = false
		}
		justified[f] = allOK
	}
	judge(a.expectSemi, 0)
}

func ruleStatementsReachSeparator(c *Ctx, a *parserAnchors) {
	writeSemi := c.fn("(*ast.CodeWriter).WriteSemi")
	if writeSemi == nil {
		c.unres("WriteSemi", token.NoPos, "not found")
		return
	}
	semiNodes := map[string]bool{}
	for _, nt := range nodeTypes(c) {
		wt := methodFn(c, nt, "WriteTo")
		if wt == nil {
			continue
		}
		allInstrs(wt, func(_ *ssa.BasicBlock, _ int, in ssa.Instruction) {
			if call, ok := in.(*ssa.Call); ok && call.Call.StaticCallee() == writeSemi {
				semiNodes[nt.Obj().Name()] = true
			}
		})
	}
	c.Tables["semicolon_terminated_nodes"] = sortedKeys(semiNodes)
	for _, f := range c.libFunctions("parser") {
		for node := range semiNodes {
			als := allocsOf(f, "ast", node)
			if len(als) == 0 {
				continue
			}
			n := 0
			a.enumPaths(f.Blocks[0], func(facts []pathFact, blocks []*ssa.BasicBlock, last *ssa.BasicBlock) {
				ret, ok := last.Instrs[len(last.Instrs)-1].(*ssa.Return)
				if !ok || len(ret.Results) != 1 || ret.Results[0] != ssa.Value(als[0]) {
					return
				}
				n++
				key := fmt.Sprintf("%s: path #%d returning the %s", fnName(f), n, node)
				checked := false
				for _, pf := range facts {
					if pf.at.kind == atCall && !pf.at.neg && pf.at.call.Call.StaticCallee() == a.expectSemi {
						checked = true
					}
				}
				c.check(checked, key, ret.Pos(), "passes the separator check", "a "+node+" is returned on a path that never passed the statement-separator check: the next statement may start on the same line unnoticed")
			})
			if n == 0 {
				c.unres(fmt.Sprintf("%s: returns of the %s", fnName(f), node), f.Pos(), "no path returning the allocated node found")
			}
		}
	}
}

func ruleUnclosedBlock(c *Ctx, a *parserAnchors) {
	tc := c.tokenConsts()
	rbrace := tc.byName["RBRACE"]
	found := false
	for _, f := range c.libFunctions("parser") {
		if len(allocsOf(f, "ast", "BlockStatement")) == 0 {
			continue
		}
		found = true
		n := 0
		a.enumPaths(f.Blocks[0], func(facts []pathFact, blocks []*ssa.BasicBlock, last *ssa.BasicBlock) {
			if _, ok := last.Instrs[len(last.Instrs)-1].(*ssa.Return); !ok {
				return
			}
			n++
			sawBrace, err, tol := false, false, false
			for _, b := range blocks {
				for _, call := range callsIn(b) {
					cal := call.Call.StaticCallee()
					if a.errRecorders[cal] {
						err = true
					} else if cal == a.nextTok || cal == nil || isLibPath(pkgPathOf(cal)) {
						sawBrace = false // the current token may have changed
					}
				}
				for _, pf := range facts {
					if pf.from != b {
						continue
					}
					switch {
					case pf.at.kind == atCurType && pf.at.k == rbrace && !pf.at.neg:
						sawBrace = true
					case pf.at.kind == atFlag && pf.at.fld == a.tolerant && !pf.at.neg:
						tol = true
					}
				}
			}
			var path []string
			for _, b := range blocks {
				path = append(path, fmt.Sprint(b.Index))
			}
			key := fmt.Sprintf("%s: path #%d", fnName(f), n)
			_ = strings.Join(path, ">")
			switch {
			case sawBrace:
				c.ok(key, last.Instrs[len(last.Instrs)-1].Pos(), "returns with '}' as current token")
			case err:
				c.ok(key, last.Instrs[len(last.Instrs)-1].Pos(), "unclosed block: error recorded")
			case tol:
				c.ok(key, last.Instrs[len(last.Instrs)-1].Pos(), "unclosed block accepted in tolerant mode only")
			default:
				c.bad(key, last.Instrs[len(last.Instrs)-1].Pos(), "the block parser returns at end of input without '}' and without recording an error in strict mode: a truncated block is accepted silently")
			}
		})
	}
	if !found {
		c.unres("block parser", token.NoPos, "no function allocating ast.BlockStatement")
	}
}

func ruleUnknownPrefix(c *Ctx, a *parserAnchors) {
	pt := c.parserTables()
	ns := c.nilSummaries(a)
	found := false
	for _, f := range c.libFunctions("parser") {
		uses := false
		allInstrs(f, func(_ *ssa.BasicBlock, _ int, in ssa.Instruction) {
			if lk, ok := in.(*ssa.Lookup); ok {
				if _, ok := isFieldLoad(lk.X, pt.prefixFld); ok {
					uses = true
				}
			}
		})
		if !uses || f == a.ctor || f.Parent() != nil {
			continue
		}
		found = true
		ci := ns.cleanPaths(a, f)
		n := 0
		allInstrs(f, func(_ *ssa.BasicBlock, _ int, in ssa.Instruction) {
			r, ok := in.(*ssa.Return)
			if !ok {
				return
			}
			for _, v := range r.Results {
				for _, o := range nilOrigins(ns, v) {
					if o.call != nil {
						continue
					}
					n++
					c.check(!o.cleanNil(ns, a, ci, r), fmt.Sprintf("%s: no-entry path #%d", fnName(f), n), r.Pos(), "an error is recorded before nil is returned", "a token with no prefix entry is dropped without an error")
				}
			}
		})
		if n == 0 {
			c.bad(fnName(f)+": no-entry path", f.Pos(), "the prefix dispatcher has no nil-returning path: a missing entry would be called as a nil function")
		}
	}
	if !found {
		c.unres("prefix dispatcher", token.NoPos, "no function looks up the prefix table")
	}
}

func ruleExpectResults(c *Ctx, a *parserAnchors) {
	for _, f := range c.libFunctions("parser") {
		allInstrs(f, func(_ *ssa.BasicBlock, _ int, in ssa.Instruction) {
			call, ok := in.(*ssa.Call)
			if !ok || (call.Call.StaticCallee() != a.expect && call.Call.StaticCallee() != a.expectSemi) {
				return
			}
			used := false
			for _, r := range *call.Referrers() {
				if _, isDbg := r.(*ssa.DebugRef); !isDbg {
					used = true
				}
			}
			if !used {
				c.info(fnName(f)+": expect result dropped", call.Pos(), "the error is still recorded; parsing continues")
			}
		})
	}
}

var lexerRulesArmed = false

// R12.5: a token of a delimited literal class (string / backtick string) may only be built when the scanner is known
// to have stopped on the closing delimiter, i.e. when the current byte cannot be 0 (end of input).
func ruleUnterminatedObservable(c *Ctx) {
	lf := c.lexFacts()
	la := lexerAnchors(c)
	tc := c.tokenConsts()
	if len(lf.problems) > 0 || la.input == nil {
		c.unres("lexer anchors", token.NoPos, "byte-set analysis of the lexer not available")
		return
	}
	illegal := tc.byName["ILLEGAL"]
	n := 0
	// every way the dispatcher returns a token whose text came from a delimited scanner (walk per first byte,
	// lexpaths.go): the current byte at the moment the token is built tells which exit the scanner took
	outs, probs := c.lexOutcomes()
	for _, p := range probs {
		c.unres("dispatcher paths", lf.base.Pos(), "%s", p)
	}
	isSlice := func(f *ssa.Function) bool {
		hit := false
		allInstrs(f, func(_ *ssa.BasicBlock, _ int, in ssa.Instruction) {
			if sl, ok := in.(*ssa.Slice); ok {
				if _, ok := isFieldLoad(sl.X, la.input); ok {
					hit = true
				}
			}
		})
		return hit
	}
	type acc struct {
		cur  bset
		pos  token.Pos
		ill  bool
		name string
		sc   string
	}
	byKey := map[string]*acc{}
	var order []string
	for _, o := range outs {
		if o.scanner == nil || isSlice(o.scanner) || !o.litScan {
			continue
		}
		name := "<computed>"
		if o.typOK {
			name = tc.name(o.typ)
		}
		key := fmt.Sprintf("%s: %s token from %s", fnName(lf.base), name, o.scanner.Name())
		a := byKey[key]
		if a == nil {
			a = &acc{name: name, sc: o.scanner.Name(), ill: o.typOK && o.typ == illegal, pos: lf.base.Pos()}
			byKey[key] = a
			order = append(order, key)
		}
		if o.builder != nil {
			a.pos = o.builder.Pos()
		}
		if o.site != nil {
			a.pos = o.site.Pos()
		}
		a.cur = a.cur.union(o.curAtBuild)
		if o.builder == nil {
			a.cur = allBytes
		}
	}
	for _, key := range order {
		a := byKey[key]
		n++
		if a.ill {
			c.ok(key, a.pos, "the unterminated case is reported as an ILLEGAL token")
			continue
		}
		c.check(!a.cur.has(0), key, a.pos, fmt.Sprintf("built only when the scanner stopped on the closing delimiter (current byte %s)", a.cur), fmt.Sprintf("the token is built although the scanner may have stopped at end of input (current byte %s): the end-of-input exit and the closing-delimiter exit of %s are indistinguishable downstream, so a literal truncated by the end of the file is accepted silently", a.cur, a.sc))
	}
	if n == 0 {
		c.unres("delimited literal tokens", lf.base.Pos(), "no token built from a delimited scanner found")
	}
	// the scanners' own exits: an exit taken because the input ended must leave a current byte that is not the
	// delimiter, otherwise the dispatcher's `current byte == delimiter` test cannot tell it from the closing exit
	for _, key := range lf.order {
		cx := lf.ctxs[key]
		if cx.fn == lf.base || cx.fn == lf.skipper || cx.entry == nil || !cx.entry.live || resultBuilder(cx.fn) == nil || cx.in == nil {
			continue
		}
		d, single := cx.entry.cur.single()
		if !single {
			continue
		}
		f := cx.fn
		reaches := func(from, to *ssa.BasicBlock) bool {
			seen := map[*ssa.BasicBlock]bool{}
			var dfs func(b *ssa.BasicBlock) bool
			dfs = func(b *ssa.BasicBlock) bool {
				if seen[b] {
					return false
				}
				seen[b] = true
				for _, s2 := range b.Succs {
					if s2 == to || dfs(s2) {
						return true
					}
				}
				return false
			}
			return dfs(from)
		}
		m := 0
		for _, b := range f.Blocks {
			iff := blockIf(b)
			in := cx.in[b]
			if iff == nil || in == nil || !in.live || !reaches(b, b) {
				continue
			}
			for i, succ := range b.Succs {
				if succ == b || reaches(succ, b) {
					continue // stays in the loop
				}
				st := in.clone()
				for _, ins := range b.Instrs {
					lf.transfer(cx, st, ins)
				}
				if !lf.refine(st, cx, iff.Cond, i == 0) {
					continue
				}
				zero := setOf(0)
				eofExit := st.cur.sub(zero) || st.peek.sub(zero)
				if !eofExit {
					continue
				}
				m++
				k := fmt.Sprintf("%s [%s…]: end-of-input exit #%d", f.Name(), string(rune(d)), m)
				ipos := iff.Pos()
				if !ipos.IsValid() {
					ipos = iff.Cond.Pos()
				}
				if !ipos.IsValid() {
					ipos = f.Pos()
				}
				c.check(!st.cur.has(d), k, ipos, fmt.Sprintf("leaves current byte %s, never the delimiter", st.cur), fmt.Sprintf("the scanner leaves its loop because the input ended, with a current byte that can still be the delimiter %q (current byte %s) — for instance right after an escaped delimiter: the dispatcher's `current byte == delimiter` test then accepts a literal that was cut off by the end of the file", string(rune(d)), st.cur))
			}
		}
		if m == 0 {
			c.unres(fmt.Sprintf("%s [%s…]: end-of-input exit", f.Name(), string(rune(d))), f.Pos(), "no loop exit that is taken at end of input was found in the scanner (accepted: an exit edge on which the current or the look-ahead byte is known to be 0)")
		}
	}
}

// ruleProgramReachesEOF: every success path of the method that builds ast.Program ends with the end-of-input token
// as current token (tested), so no trailing input is silently dropped.
func ruleProgramReachesEOF(c *Ctx, t *tables, g *grammarModel) {
	eof, ok := t.tc.byName["EOF"]
	if !ok {
		c.unres("Program: stops at end of input", token.NoPos, "token.EOF not found")
		return
	}
	for _, gm := range g.byNode["Program"] {
		key := "Program built by " + gm.method.Name() + ": stops only at end of input"
		pos := c.declIdx[gm.method].Pos()
		if len(gm.issues) > 0 || len(gm.paths) == 0 {
			c.unres(key, pos, "parse method not understood by the path enumerator")
			continue
		}
		bad := ""
		for _, gp := range gm.paths {
			last := gp.events[len(gp.events)-1]
			if last.kind != gTok || !last.checked || len(last.types) != 1 || !last.types[eof] {
				bad = renderPath(t.tc, gp.events)
				break
			}
		}
		if bad != "" {
			c.bad(key, pos, "a success path returns the program while the current token is not known to be end of input (%s): the rest of the input is dropped without an error", bad)
		} else {
			c.ok(key, pos, "all %d success paths end at a tested end-of-input token", len(gm.paths))
		}
	}
}

// ruleBlockReachesItsEnd: every success path of the method that builds ast.BlockStatement ends with the current token
// tested to be '}' — or, for the block left open, tested to be the end of the input. A loop that stops on the LOOK-AHEAD
// token being the end of input leaves the last statement unparsed (in tolerant mode silently: the open block is accepted
// by design).
func ruleBlockReachesItsEnd(c *Ctx, t *tables, g *grammarModel) {
	eof, ok1 := t.tc.byName["EOF"]
	rb, ok2 := t.tc.byName["RBRACE"]
	if !ok1 || !ok2 {
		c.unres("BlockStatement: ends at '}' or at the end of input", token.NoPos, "token constants not found")
		return
	}
	for _, gm := range g.byNode["BlockStatement"] {
		key := "BlockStatement built by " + gm.method.Name() + ": ends at '}' or at the end of input"
		pos := c.declIdx[gm.method].Pos()
		if len(gm.issues) > 0 || len(gm.paths) == 0 {
			c.unres(key, pos, "parse method not understood by the path enumerator")
			continue
		}
		bad := ""
		for _, gp := range gm.paths {
			last := gp.events[len(gp.events)-1]
			okLast := last.kind == gTok && last.checked && len(last.types) > 0
			for k := range last.types {
				if k != eof && k != rb {
					okLast = false
				}
			}
			if !okLast {
				bad = renderPath(t.tc, gp.events)
				break
			}
		}
		// the open block tolerant mode accepts: the list must have run to the end of the input itself
		for _, gp := range gm.tolerantPaths {
			if bad != "" || len(gp.events) == 0 {
				break
			}
			last := gp.events[len(gp.events)-1]
			okLast := last.kind == gTok && last.checked && len(last.types) > 0
			for k := range last.types {
				if k != eof && k != rb {
					okLast = false
				}
			}
			if !okLast {
				bad = "tolerant mode: " + renderPath(t.tc, gp.events)
			}
		}
		if bad != "" {
			c.bad(key, pos, "a success path returns the block while the current token is not known to be '}' or the end of the input (%s): the statement list stops early and what follows is parsed as if it were outside the block, or dropped", bad)
		} else {
			c.ok(key, pos, "all %d success paths end at a tested '}' / end of input", len(gm.paths))
		}
	}
}
