package main

func init() {
	sm := "sourcemap/sourcemap.go"
	vq := "sourcemap/vlq.go"
	addVariants(
		variant{Prop: "C09", Name: "source-line-update-lost", File: sm, Old: "\t\tprevSourceLine = mapping.SourceLine\n", New: "", Rule: "R9.1", Construct: "SourceLine"},
		variant{Prop: "C09", Name: "per-line-column-reset-lost", File: sm, Old: "\t\t\tprevGeneratedColumn = 0 // Reset column for new line\n", New: "", Rule: "R9.1", Construct: "GeneratedColumn"},
		variant{Prop: "C09", Name: "name-delta-updated-outside-has-name", File: sm, Old: "\t\t\tresult.WriteString(encodeVLQ(mapping.NameIndex - prevNameIndex))\n\t\t\tprevNameIndex = mapping.NameIndex\n\t\t}", New: "\t\t\tresult.WriteString(encodeVLQ(mapping.NameIndex - prevNameIndex))\n\t\t}\n\t\tprevNameIndex = mapping.NameIndex", Rule: "R9.1", Construct: "NameIndex"},
		variant{Prop: "C09", Name: "source-column-updated-from-source-line", File: sm, Old: "\t\tprevSourceColumn = mapping.SourceColumn\n", New: "\t\tprevSourceColumn = mapping.SourceLine\n", Rule: "R9.1", Construct: "SourceColumn"},
		variant{Prop: "C09", Name: "source-fields-swapped", File: sm, Old: "\t\t// Field 3: Source line (delta)\n\t\tresult.WriteString(encodeVLQ(mapping.SourceLine - prevSourceLine))\n\t\tprevSourceLine = mapping.SourceLine\n\n\t\t// Field 4: Source column (delta)\n\t\tresult.WriteString(encodeVLQ(mapping.SourceColumn - prevSourceColumn))\n\t\tprevSourceColumn = mapping.SourceColumn\n", New: "\t\tresult.WriteString(encodeVLQ(mapping.SourceColumn - prevSourceColumn))\n\t\tprevSourceColumn = mapping.SourceColumn\n\t\tresult.WriteString(encodeVLQ(mapping.SourceLine - prevSourceLine))\n\t\tprevSourceLine = mapping.SourceLine\n", Rule: "R9.1", Construct: "field order"},
		variant{Prop: "C09", Name: "source-line-reset-per-line", File: sm, Old: "\t\t\tprevGeneratedColumn = 0 // Reset column for new line\n", New: "\t\t\tprevGeneratedColumn = 0 // Reset column for new line\n\t\t\tprevSourceLine = 0\n", Rule: "R9.1", Construct: "SourceLine"},
		variant{Prop: "C09", Name: "comma-counter-not-reset", File: sm, Old: "\t\t\tsegmentsInCurrentLine = 0\n", New: "", Rule: "R9.1", Construct: "','"},
		variant{Prop: "C09", Name: "alphabet-letters-swapped", File: vq, Old: "ABCDEFGHIJKLMNOPQRSTUVWXYZabcdefghijklmnopqrstuvwxyz0123456789+/", New: "ABCDEFGHIJKLMNOPQRSTUVWXYZabcdefghijklmnopqrstuvwxyz0123456789/+", Rule: "R9.2", Construct: "alphabet"},
		variant{Prop: "C09", Name: "continuation-on-nonnegative", File: vq, Old: "\t\tif n > 0 {\n\t\t\tdigit |= 0x20", New: "\t\tif n >= 0 {\n\t\t\tdigit |= 0x20", Rule: "R9.2", Construct: "continuation"},
		variant{Prop: "C09", Name: "sign-bit-on-both-branches", File: vq, Old: "\t\tn = n << 1\n", New: "\t\tn = n<<1 | 1\n", Rule: "R9.2", Construct: "sign"},
		variant{Prop: "C09", Name: "six-bit-groups", File: vq, Old: "\t\tn >>= 5\n", New: "\t\tn >>= 6\n", Rule: "R9.2", Construct: "shift 5"},
		variant{Prop: "C09", Name: "name-index-after-append", File: sm, Old: "\t\tnameIdx = len(m.names)\n\t\tm.names = append(m.names, name)\n", New: "\t\tm.names = append(m.names, name)\n\t\tnameIdx = len(m.names)\n", Rule: "R9.3", Construct: "miss path"},
		variant{Prop: "C09", Name: "name-not-recorded-in-index", File: sm, Old: "\t\tm.nameIndex[name] = nameIdx\n", New: "", Rule: "R9.3", Construct: "miss path"},
		variant{Prop: "C09", Name: "version-four", File: sm, Old: "\t\tVersion:  3,", New: "\t\tVersion:  4,", Rule: "R9.4", Construct: "Version"},
		variant{Prop: "C09", Name: "crlf-counts-two-lines", File: sm, Old: "\t\t\tif i+1 < len(s) && s[i+1] == '\\n' {\n\t\t\t\ti++ // skip the '\\n' in '\\r\\n'\n\t\t\t}\n", New: "", Rule: "R9.5", Construct: "CR LF"},
		variant{Prop: "C09", Name: "lone-cr-is-a-column", File: sm, Old: "\t\tcase '\\r':\n\t\t\t// Handle \\r\\n (Windows) or \\r (old Mac)\n\t\t\tif i+1 < len(s) && s[i+1] == '\\n' {\n\t\t\t\ti++ // skip the '\\n' in '\\r\\n'\n\t\t\t}\n\t\t\tm.generatedLine++\n\t\t\tm.generatedColumn = 0\n", New: "", Rule: "R9.5", Construct: "lone CR"},
		variant{Prop: "C09", Name: "newline-keeps-column", File: sm, Old: "\t\tcase '\\n':\n\t\t\tm.generatedLine++\n\t\t\tm.generatedColumn = 0\n", New: "\t\tcase '\\n':\n\t\t\tm.generatedLine++\n", Rule: "R9.5", Construct: "LF"},
		variant{Prop: "C09", Name: "benign-if-chain-in-advance-string", File: sm, Old: "\t\tcase '\\n':\n\t\t\tm.generatedLine++\n\t\t\tm.generatedColumn = 0\n\t\tdefault:\n\t\t\tm.generatedColumn++\n\t\t}", New: "\t\tdefault:\n\t\t\tif s[i] == '\\n' {\n\t\t\t\tm.generatedLine++\n\t\t\t\tm.generatedColumn = 0\n\t\t\t} else {\n\t\t\t\tm.generatedColumn++\n\t\t\t}\n\t\t}", Benign: true},
		variant{Prop: "C09", Name: "benign-continuation-neq-zero", File: vq, Old: "\t\tif n > 0 {\n\t\t\tdigit |= 0x20", New: "\t\tif n != 0 {\n\t\t\tdigit |= 0x20", Benign: true},
	)
}
