package main

func init() {
	a := "ast/ast.go"
	cm := "ast/code_writer_comments.go"
	lx := "lexer/lexer.go"
	addVariants(
		variant{Prop: "C15", Name: "while-comments-not-replayed", File: a, Old: "\tcw.WriteLeadingComments(ws.Token.LeadingComments)\n", New: "", Rule: "R15.1", Construct: "WhileStatement.Token"},
		variant{Prop: "C15", Name: "return-comments-after-keyword", File: a, Old: "\tcw.WriteLeadingComments(rs.Token.LeadingComments)\n\tcw.AddMapping(rs.Token.Start)\n\tcw.WriteString(\"return\")", New: "\tcw.AddMapping(rs.Token.Start)\n\tcw.WriteString(\"return\")\n\tcw.WriteLeadingComments(rs.Token.LeadingComments)", Rule: "R15.1", Construct: "ReturnStatement"},
		variant{Prop: "C15", Name: "block-closing-brace-comments-dropped", File: a, Old: "\tcw.WriteLeadingComments(bs.RBrace.LeadingComments)\n", New: "", Rule: "R15.1", Construct: "BlockStatement.RBrace"},
		variant{Prop: "C15", Name: "program-eof-comments-dropped", File: a, Old: "\tcw.WriteLeadingComments(p.EOF.LeadingComments)\n", New: "", Rule: "R15.1", Construct: "Program.EOF"},
		variant{Prop: "C15", Name: "program-eof-token-not-kept", File: "parser/parser.go", Old: "\tprogram.EOF = p.CurrentToken\n", New: "", Rule: "R15.2", Construct: "Program"},
		variant{Prop: "C15", Name: "block-brace-replayed-before-statements", File: a, Old: "\tcw.WriteRune('{')\n\tcw.WriteNewline()\n\tcw.IncreaseIndent()", New: "\tcw.WriteRune('{')\n\tcw.WriteLeadingComments(bs.RBrace.LeadingComments)\n\tcw.WriteNewline()\n\tcw.IncreaseIndent()", More: []edit{{File: a, Old: "\tcw.DecreaseIndent()\n\tcw.WriteNewline()\n\tcw.WriteLeadingComments(bs.RBrace.LeadingComments)\n", New: "\tcw.DecreaseIndent()\n\tcw.WriteNewline()\n"}}, Rule: "R15.2", Construct: "BlockStatement"},
		variant{Prop: "C15", Name: "identifier-comments-replayed-twice", File: a, Old: "\tcw.WriteLeadingComments(i.Token.LeadingComments)\n\tcw.AddNamedMapping", New: "\tcw.WriteLeadingComments(i.Token.LeadingComments)\n\tcw.WriteLeadingComments(i.Token.LeadingComments)\n\tcw.AddNamedMapping", Rule: "R15.3", Construct: "Identifier.Token"},
		variant{Prop: "C15", Name: "replay-without-pretty-guard", File: cm, Old: "\tif !cw.PrettyPrint || len(comments) == 0 {", New: "\tif len(comments) == 0 {", Rule: "R15.4", Construct: "replay method"},
		variant{Prop: "C15", Name: "compiler-reads-comments-directly", File: "compiler/compiler.go", Old: "\tprogram.WriteTo(&w)\n", New: "\tfor _, c := range program.EOF.LeadingComments {\n\t\tw.WriteString(\"//\" + c)\n\t}\n\tprogram.WriteTo(&w)\n", Rule: "R15.4", Construct: "LeadingComments"},
		variant{Prop: "C15", Name: "replay-without-trailing-newline", File: cm, Old: "\tcw.clearPending()\n\tcw.WriteNewline()\n\tcw.WriteIndent()", New: "\tcw.clearPending()\n\tcw.WriteIndent()", Rule: "R15.5", Construct: "forced line break"},
		variant{Prop: "C15", Name: "write-space-clears-pending", File: "ast/code_writer_format.go", Old: "\tif n := len(cw.pendings); n == 0 || cw.pendings[n-1] != ' ' {\n\t\tcw.pendings = append(cw.pendings, ' ')\n\t}", New: "\tcw.clearPending()\n\tcw.pendings = append(cw.pendings, ' ')", Rule: "R15.5", Construct: "WriteSpace"},
		variant{Prop: "C15", Name: "comment-text-skips-first-byte", File: lx, Old: "\t\t\tfor l.CurrentChar != '\\n' && l.CurrentChar != 0 {\n\t\t\t\tcomment.WriteByte(l.CurrentChar)\n\t\t\t\tl.ReadChar()\n\t\t\t}", New: "\t\t\tfor l.CurrentChar != '\\n' && l.CurrentChar != 0 {\n\t\t\t\tl.ReadChar()\n\t\t\t\tcomment.WriteByte(l.CurrentChar)\n\t\t\t}", Rule: "R15.6", Construct: "append"},
		variant{Prop: "C15", Name: "trivia-list-not-reset", File: lx, Old: "\tl.hadNewlineBefore = false\n\tl.leadingComments = nil\n", New: "\tl.hadNewlineBefore = false\n", More: []edit{{File: "lexer/base_functions.go", Old: "LeadingComments: append([]string(nil), l.leadingComments...),\n\t}\n}\n\n// NewTokenAt", New: "LeadingComments: append([]string(nil), l.leadingComments...),\n\t}\n}\n\nvar _ = 0\n\n// NewTokenAt"}}, Rule: "R15.6", Construct: "reset at entry"},
		variant{Prop: "C15", Name: "benign-comment-prefix-constant", File: cm, Old: "\t\t\tcw.emitString(\"//\")\n\t\t}\n\t\tcw.emitString(comment)", New: "\t\t\tcw.emitString(\"//\" + comment)\n\t\t} else {\n\t\t\tcw.emitString(comment)\n\t\t}", Benign: true},
	)
}
