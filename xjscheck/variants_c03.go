package main

func init() {
	a := "ast/ast.go"
	addVariants(
		variant{Prop: "C03", Name: "printer-modulo-at-sum-level", File: a, Old: "case token.PLUS, token.MINUS:\n\t\treturn PrecedenceSum\n\tcase token.MULTIPLY, token.DIVIDE, token.MODULO:", New: "case token.PLUS, token.MINUS, token.MODULO:\n\t\treturn PrecedenceSum\n\tcase token.MULTIPLY, token.DIVIDE:", Rule: "R3.1", Construct: "token MODULO"},
		variant{Prop: "C03", Name: "printer-forgets-lte", File: a, Old: "case token.LT, token.GT, token.LTE, token.GTE:", New: "case token.LT, token.GT, token.GTE:", Rule: "R3.1", Construct: "token LTE"},
		variant{Prop: "C03", Name: "right-operand-guard-strict", File: a, Old: "rightNeedsParens := be.Right.Precedence() <= myPrecedence", New: "rightNeedsParens := be.Right.Precedence() < myPrecedence", Rule: "R3.3", Construct: "BinaryExpression.Right"},
		variant{Prop: "C03", Name: "closing-paren-under-other-condition", File: a, Old: "be.Left.WriteTo(cw)\n\tif leftNeedsParens {", New: "be.Left.WriteTo(cw)\n\tif be.Left.Precedence() <= myPrecedence {", Rule: "R3.3", Construct: "BinaryExpression.Left"},
		variant{Prop: "C03", Name: "unary-reports-postfix-level", File: a, Old: "func (ue *UnaryExpression) Precedence() int {\n\treturn PrecedenceUnary", New: "func (ue *UnaryExpression) Precedence() int {\n\treturn PrecedencePostfix", Rule: "R3.2", Construct: "UnaryExpression"},
		variant{Prop: "C03", Name: "unary-guard-against-product", File: a, Old: "if ue.Right.Precedence() < PrecedenceUnary {", New: "if ue.Right.Precedence() < PrecedenceProduct {", Rule: "R3.3", Construct: "UnaryExpression.Right"},
		variant{Prop: "C03", Name: "postfix-guard-dropped", File: a, Old: "if pe.Left.Precedence() < PrecedencePostfix {\n\t\tcw.WriteRune('(')\n\t\tpe.Left.WriteTo(cw)\n\t\tcw.WriteRune(')')\n\t} else {\n\t\tpe.Left.WriteTo(cw)\n\t}", New: "pe.Left.WriteTo(cw)", Rule: "R3.3", Construct: "PostfixExpression.Left"},
		variant{Prop: "C03", Name: "call-reports-member-level", File: a, Old: "func (ce *CallExpression) Precedence() int {\n\treturn PrecedenceCall", New: "func (ce *CallExpression) Precedence() int {\n\treturn PrecedenceMember", Rule: "R3.2", Construct: "CallExpression"},
		variant{Prop: "C03", Name: "parser-and-or-swapped-parser-only", File: "parser/parser.go", Old: "token.OR:           LOGICAL_OR,\n\ttoken.AND:          LOGICAL_AND,", New: "token.OR:           LOGICAL_AND,\n\ttoken.AND:          LOGICAL_OR,", Rule: "R3.1", Construct: "token AND"},
		variant{Prop: "C03", Name: "benign-extra-level-both-sides", File: a, Old: "\tPrecedenceLowest\n", New: "\tPrecedenceLowest\n\tPrecedenceReserved\n", More: []edit{{File: "parser/parser.go", Old: "\tLOWEST\n", New: "\tLOWEST\n\tRESERVED\n"}}, Benign: true},
		variant{Prop: "C03", Name: "benign-guard-orientation-flipped", File: a, Old: "leftNeedsParens := be.Left.Precedence() < myPrecedence", New: "leftNeedsParens := myPrecedence > be.Left.Precedence()", Benign: true},
		variant{Prop: "C03", Name: "benign-if-chain-for-assignment-level", File: a, Old: "\tswitch tokenType {\n\tcase token.ASSIGN, token.PLUS_ASSIGN, token.MINUS_ASSIGN:\n\t\treturn PrecedenceAssignment\n", New: "\tif tokenType == token.ASSIGN || tokenType == token.PLUS_ASSIGN || tokenType == token.MINUS_ASSIGN {\n\t\treturn PrecedenceAssignment\n\t}\n\tswitch tokenType {\n", Benign: true},
		variant{Prop: "C03", Name: "benign-more-parens-than-needed", File: a, Old: "leftNeedsParens := be.Left.Precedence() < myPrecedence", New: "leftNeedsParens := be.Left.Precedence() <= myPrecedence", Benign: true},
	)
}
