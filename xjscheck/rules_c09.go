package main

import (
	"fmt"
	"go/constant"
	"go/token"
	"go/types"
	"sort"
	"strings"

	"golang.org/x/tools/go/ssa"
)

func init() {
	register("C09", &propSpec{
		run: runC09,
		explanation: "The Source Map v3 encoder's discipline, decided in SSA on the current source: " +
			"R9.1 delta discipline across the five sibling fields (Engler-style cross-check): every encodeVLQ(a − prev) has `a` read from one Mapping field (or the constant 0 for the source index) and `prev` carried by a loop variable whose next-iteration value is that same field, updated under exactly the condition under which the delta is emitted (unconditionally for fields 1–4, under HasName for the name); the generated column's `prev` is reset to 0 exactly where ';' is written; fields are emitted in the order 1-2-3-4-(5); ',' is written exactly when a segment was already written on the current line; ';' is written while the current line is behind the mapping's generated line; " +
			"R9.2 codec constants vs the specification: the digit alphabet equals the RFC 4648 alphabet, 5 value bits (mask 31, shift 5), continuation bit 32 set only when more digits follow, sign in the least significant bit (|1 on the negative branch only, <<1 on both), least significant group first, loop ends when nothing remains; " +
			"R9.3 name interning: only New and AddNamedMapping write names/nameIndex; a memo hit performs no write; a miss takes the index as the length BEFORE the append and records it under the name; " +
			"R9.4 every SourceMap literal has Version 3, Names = the interned list, Mappings = the encoder's result; " +
			"R9.5 line-break accounting in AdvanceString: per loop iteration, '\\r' (with an optional following '\\n' skipped) and '\\n' each add exactly one line and zero the column, every other byte adds one column, and the index advances by exactly the bytes consumed; the mapper's position is written only by the constructor and the three advance methods. " +
			"VLQ arithmetic for every integer and decoded equality are not decided.",
		notDecided: []string{"VLQ correctness for every integer (loop arithmetic)", "minInt / negative-zero corner cases", "equality of decoded and recorded mappings"},
	})
}

func runC09(c *Ctx) {
	c.buildSSA()
	// anchors: the VLQ encoder (func(int) string indexing a constant string) and its caller
	var enc *ssa.Function
	var alphabet string
	var alphaIdx *ssa.Index
	for _, f := range c.libFunctions("sourcemap") {
		if f.Signature.Recv() != nil || len(f.Params) != 1 {
			continue
		}
		allInstrs(f, func(_ *ssa.BasicBlock, _ int, in ssa.Instruction) {
			if ix, ok := in.(*ssa.Index); ok {
				if k, ok := ix.X.(*ssa.Const); ok && k.Value != nil && k.Value.Kind() == constant.String {
					enc, alphabet, alphaIdx = f, constant.StringVal(k.Value), ix
				}
			}
		})
	}
	c.rule("R9.0", "anchors: the VLQ digit encoder and the mappings encoder")
	if enc == nil {
		c.unres("VLQ encoder", token.NoPos, "no func(int) string in package sourcemap indexes a constant digit alphabet")
		return
	}
	var E *ssa.Function
	for _, f := range c.libFunctions("sourcemap") {
		allInstrs(f, func(_ *ssa.BasicBlock, _ int, in ssa.Instruction) {
			if call, ok := in.(*ssa.Call); ok && call.Call.StaticCallee() == enc && f != enc {
				E = f
			}
		})
	}
	if E == nil {
		c.unres("mappings encoder", token.NoPos, "no caller of the VLQ encoder")
		return
	}
	c.ok("anchors", enc.Pos(), "digit encoder %s, mappings encoder %s", fnName(enc), fnName(E))

	c.rule("R9.1", "delta discipline of the five sibling fields; per-line reset; field order; ',' and ';' placement")
	c.floor(9)
	r9_1(c, E, enc)
	c.rule("R9.2", "codec constants: RFC 4648 alphabet, mask 31, shift 5, continuation 32, sign in LSB, LSB-first, termination")
	c.floor(7)
	r9_2(c, enc, alphabet, alphaIdx)
	c.rule("R9.3", "name interning: single writers; memo hit write-free; index = length before append, recorded under the name")
	c.floor(3)
	r9_3(c)
	c.rule("R9.4", "SourceMap literal: Version 3, Names = interned list, Mappings = encoder result")
	c.floor(3)
	r9_4(c, E)
	c.rule("R9.5", "line-break accounting per iteration of AdvanceString; who-may-write the generated position")
	c.floor(5)
	r9_5(c)
}

// headerPhiRoot follows phi edges back to a phi of block h; returns it (nil if v does not derive purely from one).
func headerPhiRoot(v ssa.Value, h *ssa.BasicBlock, seen map[ssa.Value]bool) (*ssa.Phi, []*ssa.Phi) {
	phi, ok := v.(*ssa.Phi)
	if !ok || seen[v] {
		return nil, nil
	}
	seen[v] = true
	if phi.Block() == h {
		return phi, nil
	}
	var root *ssa.Phi
	chain := []*ssa.Phi{phi}
	for _, e := range phi.Edges {
		if _, isConst := e.(*ssa.Const); isConst {
			continue
		}
		r, ch := headerPhiRoot(e, h, seen)
		if r != nil {
			if root != nil && root != r {
				return nil, nil
			}
			root = r
			chain = append(chain, ch...)
		}
	}
	return root, chain
}

func mappingFieldLoad(v ssa.Value) *types.Var {
	u, ok := v.(*ssa.UnOp)
	if !ok || u.Op != token.MUL {
		return nil
	}
	fa, ok := u.X.(*ssa.FieldAddr)
	if !ok || !namedIs(fa.X.Type(), "sourcemap", "Mapping") {
		return nil
	}
	return fieldOfAddr(fa)
}

func writesByte(b *ssa.BasicBlock, ch byte) *ssa.Call {
	for _, call := range callsIn(b) {
		if _, rep := repeatOf(call, ch); rep != nil {
			return call
		}
		if cal := call.Call.StaticCallee(); cal != nil && pkgPathOf(cal) == "strings" && (cal.Name() == "WriteByte" || cal.Name() == "WriteRune") {
			if k, ok := constInt64(call.Call.Args[1]); ok && k == int64(ch) {
				return call
			}
		}
		if cal := call.Call.StaticCallee(); cal != nil && pkgPathOf(cal) == "strings" && cal.Name() == "WriteString" {
			if k, ok := call.Call.Args[1].(*ssa.Const); ok && k.Value != nil && k.Value.Kind() == constant.String && constant.StringVal(k.Value) == string(ch) {
				return call
			}
		}
	}
	return nil
}

func r9_1(c *Ctx, E, enc *ssa.Function) {
	// the outer loop header: the block holding the phis that the deltas are taken against
	type site struct {
		call  *ssa.Call
		field *types.Var // nil = constant 0 (source index)
		root  *ssa.Phi
		chain []*ssa.Phi
		ord   int
	}
	var sites []site
	var header *ssa.BasicBlock
	ord := 0
	for _, b := range E.Blocks {
		for _, in := range b.Instrs {
			call, ok := in.(*ssa.Call)
			if !ok || call.Call.StaticCallee() != enc {
				continue
			}
			ord++
			key := fmt.Sprintf("delta #%d", ord)
			if sb, ok := call.Call.Args[0].(*ssa.BinOp); ok {
				if f := mappingFieldLoad(sb.X); f != nil {
					key = "field " + f.Name()
				} else if k, ok := constInt64(sb.X); ok && k == 0 {
					key = "field <source index>"
				}
			}
			sub, ok := call.Call.Args[0].(*ssa.BinOp)
			if !ok || sub.Op != token.SUB {
				c.bad(key+": shape", call.Pos(), "the encoded value is not a difference `current − previous`: absolute values are emitted where Source Map v3 requires deltas")
				continue
			}
			// find the header: the block of the outermost phi this derives from
			var root *ssa.Phi
			var chain []*ssa.Phi
			for _, h := range E.Blocks {
				if r, ch := headerPhiRoot(sub.Y, h, map[ssa.Value]bool{}); r != nil && (header == nil || h == header) {
					// prefer the outermost loop header: the one that dominates the others
					if root == nil || h.Dominates(root.Block()) {
						root, chain = r, ch
					}
				}
			}
			if root == nil {
				c.bad(key+": previous value", call.Pos(), "the subtrahend is not a loop-carried variable (a constant or a per-iteration value): the field is not delta-encoded against the previous segment")
				continue
			}
			// outermost header
			for {
				up := false
				for _, e := range root.Edges {
					for _, h := range E.Blocks {
						if h != root.Block() && h.Dominates(root.Block()) {
							if r2, ch2 := headerPhiRoot(e, h, map[ssa.Value]bool{}); r2 != nil {
								chain = append(append(chain, root), ch2...)
								root = r2
								up = true
							}
						}
					}
				}
				if !up {
					break
				}
			}
			if header == nil {
				header = root.Block()
			}
			s := site{call: call, root: root, chain: chain, ord: ord}
			if k, ok := constInt64(sub.X); ok && k == 0 {
				s.field = nil
			} else if f := mappingFieldLoad(sub.X); f != nil {
				s.field = f
			} else {
				c.bad(key+": current value", call.Pos(), "the minuend is neither a field of the mapping nor the constant source index 0")
				continue
			}
			sites = append(sites, s)
		}
	}
	if header == nil {
		c.unres("loop", E.Pos(), "no delta-encoded call found")
		return
	}
	// the latch: predecessor of the header inside the loop
	var latch *ssa.BasicBlock
	latchIdx := -1
	for i, p := range header.Preds {
		if header.Dominates(p) {
			latch, latchIdx = p, i
		}
	}
	if latch == nil {
		c.unres("loop latch", E.Pos(), "header has no back edge")
		return
	}
	semiBlocks := map[*ssa.BasicBlock]bool{}
	for _, b := range E.Blocks {
		if writesByte(b, ';') != nil {
			semiBlocks[b] = true
		}
	}
	wantOrder := []string{"GeneratedColumn", "<source index>", "SourceLine", "SourceColumn", "NameIndex"}
	var gotOrder []string
	seenRoot := map[*ssa.Phi]bool{}
	for _, s := range sites {
		name := "<source index>"
		if s.field != nil {
			name = s.field.Name()
		}
		gotOrder = append(gotOrder, name)
		key := "field " + name
		if seenRoot[s.root] {
			c.bad(key+": own previous-value variable", s.call.Pos(), "two fields are delta-encoded against the same variable")
		}
		seenRoot[s.root] = true
		// next-iteration value of the previous-value variable
		next := s.root.Edges[latchIdx]
		updBlock, updCond := (*ssa.BasicBlock)(nil), false
		okUpd := false
		switch {
		case s.field == nil:
			if k, ok := constInt64(next); ok && k == 0 {
				okUpd = true
				updBlock = s.call.Block()
			}
		case mappingFieldLoad(next) == s.field:
			okUpd = true
			updBlock = next.(ssa.Instruction).Block()
		default:
			if phi, ok := next.(*ssa.Phi); ok {
				// conditional update: phi[previous, field]
				for i, e := range phi.Edges {
					if mappingFieldLoad(e) == s.field {
						okUpd, updCond = true, true
						updBlock = phi.Block().Preds[i]
					}
				}
				for _, e := range phi.Edges {
					if mappingFieldLoad(e) != s.field && e != ssa.Value(s.root) && !inChain(e, s.chain) {
						okUpd = false
					}
				}
			}
		}
		if !okUpd {
			c.bad(key+": previous := current after encoding", s.call.Pos(), "after encodeVLQ(%s − prev) the previous-value variable is not set to the same field for the next segment (its next value is %s): every later delta of this field is wrong", name, next.Name())
			continue
		}
		// encode and update happen under the same condition
		same := false
		if updCond {
			same = s.call.Block() == updBlock
		} else {
			same = s.call.Block().Dominates(latch) && (updBlock == nil || updBlock.Dominates(latch))
		}
		c.check(same, key+": previous := current after encoding", s.call.Pos(), "updated to the same field, under the same condition as the emission", fmt.Sprintf("the delta of %s is emitted under a different condition than its previous-value update (emission block %d, update block %v, conditional update=%v)", name, s.call.Block().Index, blockIdx(updBlock), updCond))
		// name: only under HasName
		if name == "NameIndex" {
			under := false
			for _, ob := range E.Blocks {
				if iff := blockIf(ob); iff != nil {
					if f := mappingFieldLoad(iff.Cond); f != nil && f.Name() == "HasName" && condEdgeDominates(ob, true, s.call.Block()) {
						under = true
					}
				}
			}
			c.check(under, key+": only for named segments", s.call.Pos(), "emitted under HasName", "the name delta is emitted for segments without a name (5-field segments where 4 are required)")
		}
		// generated column: reset to 0 exactly where ';' is written
		if name == "GeneratedColumn" {
			reset := false
			for _, phi := range append(s.chain, s.root) {
				for i, e := range phi.Edges {
					if k, ok := constInt64(e); ok && k == 0 && semiBlocks[phi.Block().Preds[i]] {
						reset = true
					}
				}
			}
			c.check(reset && len(semiBlocks) > 0, key+": reset per generated line", s.call.Pos(), "the previous generated column becomes 0 on the path that writes ';'", "the previous generated column is not reset to 0 where ';' is written: columns after the first line are relative to the previous line's last segment")
		} else {
			// the other fields must NOT be reset per line
			for _, phi := range append(s.chain, s.root) {
				if phi.Block() == header {
					continue
				}
				for i, e := range phi.Edges {
					if k, ok := constInt64(e); ok && k == 0 && semiBlocks[phi.Block().Preds[i]] {
						c.bad(key+": not reset per line", s.call.Pos(), "%s is reset at ';' but Source Map v3 carries it across lines", name)
					}
				}
			}
		}
	}
	c.check(strings.Join(gotOrder, ",") == strings.Join(wantOrder, ","), "field order 1-2-3-4-(5)", E.Pos(), strings.Join(gotOrder, ", "), "segment fields are emitted in the order ["+strings.Join(gotOrder, ", ")+"], Source Map v3 requires ["+strings.Join(wantOrder, ", ")+"]")
	// ',' exactly when a previous segment exists on this line; ';' while behind the generated line
	for _, b := range E.Blocks {
		if call := writesByte(b, ','); call != nil {
			okc := false
			for _, ob := range E.Blocks {
				if iff := blockIf(ob); iff != nil {
					if bo, ok := iff.Cond.(*ssa.BinOp); ok && condEdgeDominates(ob, true, b) {
						if k, isK := constInt64(bo.Y); isK && ((bo.Op == token.GTR && k == 0) || (bo.Op == token.NEQ && k == 0) || (bo.Op == token.GEQ && k == 1)) {
							// the counter: reset at ';', +1 per segment
							if r, ch := headerPhiRoot(bo.X, header, map[ssa.Value]bool{}); r != nil {
								reset := false
								for _, phi := range append(ch, r) {
									for i, e := range phi.Edges {
										if kk, ok := constInt64(e); ok && kk == 0 && semiBlocks[phi.Block().Preds[i]] {
											reset = true
										}
									}
								}
								inc := false
								if nb, ok := r.Edges[latchIdx].(*ssa.BinOp); ok && nb.Op == token.ADD {
									if kk, ok := constInt64(nb.Y); ok && kk == 1 {
										if rr, _ := headerPhiRoot(nb.X, header, map[ssa.Value]bool{}); rr == r {
											inc = true
										}
									}
								}
								okc = reset && inc
							}
						}
					}
				}
			}
			c.check(okc, "',' between segments of one line", call.Pos(), "written iff the per-line segment counter (reset at ';', +1 per segment) is positive", "',' is not written exactly when a segment was already emitted on the current generated line")
		}
	}
	for b := range semiBlocks {
		call := writesByte(b, ';')
		okc := false
		for _, ob := range E.Blocks {
			if iff := blockIf(ob); iff != nil {
				if bo, ok := iff.Cond.(*ssa.BinOp); ok {
					// the edge on which counter < mapping line holds: c < L, L > c (true edge); c >= L, L <= c (false edge)
					cx, ly, onTrue := bo.X, bo.Y, true
					// (L - c) > 0, (L - c) >= 1, (L - c) != 0 is not accepted (negative differences), (L - c) <= 0 false edge
					if sub, isSub := bo.X.(*ssa.BinOp); isSub && sub.Op == token.SUB {
						if k, isK := constInt64(bo.Y); isK {
							switch {
							case bo.Op == token.GTR && k == 0, bo.Op == token.GEQ && k == 1:
								bo = &ssa.BinOp{Op: token.LSS, X: sub.Y, Y: sub.X}
							case bo.Op == token.LEQ && k == 0, bo.Op == token.LSS && k == 1:
								bo = &ssa.BinOp{Op: token.GEQ, X: sub.Y, Y: sub.X}
							}
							cx, ly = bo.X, bo.Y
						}
					}
					switch bo.Op {
					case token.LSS:
					case token.GTR:
						cx, ly = bo.Y, bo.X
					case token.GEQ:
						onTrue = false
					case token.LEQ:
						cx, ly, onTrue = bo.Y, bo.X, false
					default:
						continue
					}
					if !condEdgeDominates(ob, onTrue, b) {
						continue
					}
					if f := mappingFieldLoad(ly); f != nil && f.Name() == "GeneratedLine" {
						// line counter incremented by one in the ';' block
						if r, _ := headerPhiRoot(cx, header, map[ssa.Value]bool{}); r != nil {
							// bulk form: Repeat(";", line - counter) and counter = line
							if n, rep := repeatOf(call, ';'); rep != nil {
								if sub, ok := n.(*ssa.BinOp); ok && sub.Op == token.SUB && sub.Y == cx {
									if f2 := mappingFieldLoad(sub.X); f2 != nil && f2.Name() == "GeneratedLine" {
										for _, blk := range E.Blocks {
											for _, in := range blk.Instrs {
												phi, ok := in.(*ssa.Phi)
												if !ok {
													break
												}
												for i, pred := range blk.Preds {
													if pred != b {
														continue
													}
													if f3 := mappingFieldLoad(phi.Edges[i]); f3 != nil && f3.Name() == "GeneratedLine" {
														if rr, _ := headerPhiRoot(phi, header, map[ssa.Value]bool{}); rr == r || phi == r {
															okc = true
														}
													}
												}
											}
										}
									}
								}
							}
							// one at a time: a single ';' and counter+1, repeated (the block loops back to this very test
							// without passing the header of the loop over the mappings)
							if _, rep := repeatOf(call, ';'); rep == nil && loopsBackTo(b, ob, header) {
								for _, in := range b.Instrs {
									if inc, ok := in.(*ssa.BinOp); ok && inc.Op == token.ADD && inc.X == cx {
										if k, ok := constInt64(inc.Y); ok && k == 1 {
											okc = true
										}
									}
								}
							}
						}
					}
				}
			}
		}
		c.check(okc, "';' per generated line", call.Pos(), "one ';' per line while the line counter is behind the mapping's generated line", "';' is not written once per generated line up to the mapping's line")
	}
	if len(semiBlocks) == 0 {
		c.bad("';' per generated line", E.Pos(), "the encoder never writes ';'")
	}
}

func blockIdx(b *ssa.BasicBlock) string {
	if b == nil {
		return "<none>"
	}
	return fmt.Sprint(b.Index)
}

func inChain(v ssa.Value, chain []*ssa.Phi) bool {
	for _, p := range chain {
		if ssa.Value(p) == v {
			return true
		}
	}
	return false
}

func r9_2(c *Ctx, enc *ssa.Function, alphabet string, alphaIdx *ssa.Index) {
	std := ""
	for ch := 'A'; ch <= 'Z'; ch++ {
		std += string(ch)
	}
	for ch := 'a'; ch <= 'z'; ch++ {
		std += string(ch)
	}
	for ch := '0'; ch <= '9'; ch++ {
		std += string(ch)
	}
	std += "+/"
	c.check(alphabet == std, "digit alphabet = RFC 4648", alphaIdx.Pos(), "64 digits in the standard order", fmt.Sprintf("the Base64 digit alphabet differs from RFC 4648 (%q): every decoder reads other values", alphabet))
	// collect the arithmetic
	n := enc.Params[0]
	var and, or32, shr, or1 *ssa.BinOp
	var shls []*ssa.BinOp
	// the sign conversion may live in a pure helper applied to n
	signFn := enc
	var signCall *ssa.Call
	allInstrs(enc, func(_ *ssa.BasicBlock, _ int, in ssa.Instruction) {
		call, ok := in.(*ssa.Call)
		if !ok || signCall != nil {
			return
		}
		h := call.Call.StaticCallee()
		if h == nil || h.Pkg != enc.Pkg || h.Signature.Recv() != nil || len(h.Params) != 1 || len(call.Call.Args) != 1 || call.Call.Args[0] != ssa.Value(n) || h.Signature.Results().Len() != 1 {
			return
		}
		pure := true
		allInstrs(h, func(_ *ssa.BasicBlock, _ int, in2 ssa.Instruction) {
			switch in2.(type) {
			case *ssa.BinOp, *ssa.UnOp, *ssa.If, *ssa.Jump, *ssa.Return, *ssa.Phi, *ssa.DebugRef:
			default:
				pure = false
			}
		})
		if pure {
			signCall, signFn = call, h
		}
	})
	if signFn != enc {
		n = signFn.Params[0]
	}
	gather := func(_ *ssa.BasicBlock, _ int, in ssa.Instruction) {
		bo, ok := in.(*ssa.BinOp)
		if !ok {
			return
		}
		k, isK := constInt64(bo.Y)
		switch bo.Op {
		case token.AND:
			and = bo
		case token.OR:
			if isK && k == 1 {
				or1 = bo
			} else {
				or32 = bo
			}
		case token.SHR:
			shr = bo
		case token.SHL:
			shls = append(shls, bo)
		}
	}
	allInstrs(enc, gather)
	if signFn != enc {
		allInstrs(signFn, gather)
	}
	kOf := func(b *ssa.BinOp) int64 {
		if b == nil {
			return -1
		}
		k, _ := constInt64(b.Y)
		return k
	}
	c.check(kOf(and) == 31, "5 value bits per digit (mask 31)", posOf(and, enc), "n & 31", fmt.Sprintf("the value mask is %d, Source Map VLQ uses 5 bits (31)", kOf(and)))
	c.check(kOf(shr) == 5 && and != nil && shr != nil && shr.X == and.X, "shift 5 on the same remaining value", posOf(shr, enc), "n >> 5 of the value whose low 5 bits were taken (least significant group first)", fmt.Sprintf("the remaining value is shifted by %d / not the value that was masked: groups are not emitted LSB-first in 5-bit steps", kOf(shr)))
	// continuation bit: 32, only when more digits follow
	contOK := false
	if or32 != nil && kOf(or32) == 32 && and != nil && or32.X == ssa.Value(and) && shr != nil {
		for _, ob := range enc.Blocks {
			if iff := blockIf(ob); iff != nil {
				if bo, ok := iff.Cond.(*ssa.BinOp); ok && bo.X == ssa.Value(shr) {
					if k, isK := constInt64(bo.Y); isK && k == 0 && (bo.Op == token.GTR || bo.Op == token.NEQ) && condEdgeDominates(ob, true, or32.Block()) {
						contOK = true
					}
				}
			}
		}
	}
	c.check(contOK, "continuation bit 32 iff more digits follow", posOf(or32, enc), "digit | 32 only when the shifted remainder is non-zero", "the continuation bit is not 32 / not set exactly when more digits follow")
	// the emitted digit is the (possibly continued) masked value
	digOK := false
	if and != nil {
		switch x := alphaIdx.Index.(type) {
		case *ssa.Phi:
			digOK = true
			for _, e := range x.Edges {
				if e != ssa.Value(and) && e != ssa.Value(or32) {
					digOK = false
				}
			}
		case *ssa.BinOp:
			digOK = x == and
		}
	}
	c.check(digOK, "emitted digit = masked group (+ continuation)", alphaIdx.Pos(), "alphabet[digit]", "the alphabet is indexed by something other than the 5-bit group with its continuation bit")
	// sign: <<1 on both branches, |1 on the negative branch only
	signOK := len(shls) == 2 && or1 != nil
	if signOK {
		for _, s := range shls {
			if kOf(s) != 1 {
				signOK = false
			}
		}
		neg := false
		for _, ob := range signFn.Blocks {
			if iff := blockIf(ob); iff != nil {
				if bo, ok := iff.Cond.(*ssa.BinOp); ok && bo.Op == token.LSS && bo.X == ssa.Value(n) {
					if k, isK := constInt64(bo.Y); isK && k == 0 && condEdgeDominates(ob, true, or1.Block()) {
						neg = true
						// the negative branch negates first
						if sh, ok := or1.X.(*ssa.BinOp); !ok || sh.Op != token.SHL {
							signOK = false
						} else if u, ok := sh.X.(*ssa.UnOp); !ok || u.Op != token.SUB || u.X != ssa.Value(n) {
							signOK = false
						}
					}
				}
			}
		}
		signOK = signOK && neg
		// the non-negative form shifts n itself
		for _, sh := range shls {
			if sh != or1.X && sh.X != ssa.Value(n) {
				signOK = false
			}
		}
	}
	// the digit loop consumes the sign-converted value: what is masked is, on entry to the loop, one of the two
	// converted forms (or the helper's result), and afterwards the shifted remainder
	if signOK && and != nil && shr != nil {
		leaves := func(v ssa.Value) map[ssa.Value]bool {
			out := map[ssa.Value]bool{}
			seen := map[ssa.Value]bool{}
			var walk func(v ssa.Value)
			walk = func(v ssa.Value) {
				if seen[v] {
					return
				}
				seen[v] = true
				if phi, ok := v.(*ssa.Phi); ok {
					for _, e := range phi.Edges {
						walk(e)
					}
					return
				}
				out[v] = true
			}
			walk(v)
			return out
		}
		converted := map[ssa.Value]bool{ssa.Value(or1): true}
		for _, sh := range shls {
			if ssa.Value(sh) != or1.X {
				converted[sh] = true
			}
		}
		fed := leaves(and.X)
		delete(fed, ssa.Value(shr))
		linked := len(fed) > 0
		if signCall != nil {
			// the helper returns exactly the converted forms, and the loop starts from its result
			rets := map[ssa.Value]bool{}
			allInstrs(signFn, func(_ *ssa.BasicBlock, _ int, in ssa.Instruction) {
				if r, ok := in.(*ssa.Return); ok {
					for v := range leaves(r.Results[0]) {
						rets[v] = true
					}
				}
			})
			for v := range rets {
				if !converted[v] {
					linked = false
				}
			}
			linked = linked && len(rets) == len(converted) && len(fed) == 1 && fed[ssa.Value(signCall)]
		} else {
			for v := range fed {
				if !converted[v] {
					linked = false
				}
			}
			linked = linked && len(fed) == len(converted)
		}
		c.check(linked, "digit loop starts from the sign-converted value", posOf(and, enc), "the masked value is the converted n on entry and the shifted remainder afterwards", "the digit loop does not run over the sign-converted value (the sign bit is lost or the raw value is encoded)")
	}
	if !signOK && and != nil && signFn == enc {
		// folded: for sample values of n the code in front of the digit loop is evaluated as constants; the value that
		// enters the loop in the masked variable must be (|n| << 1) | sign
		signOK = signConversionFolds(enc, and)
		if signOK {
			c.info("sign in the least significant bit (decided on samples)", posOf(and, enc), "the sign conversion is not in the recognised form; the code in front of the digit loop was evaluated for 13 sample values of n and the value entering the loop equals (|n| << 1) | sign for each — weaker than the shape rule, which covers every n")
		}
	}
	c.check(signOK, "sign in the least significant bit", posOf(or1, enc), "(−n << 1) | 1 for negative n, n << 1 otherwise", "the sign is not encoded as the least significant bit of the first group ((-n<<1)|1 for n<0, n<<1 otherwise)")
	// termination: loop exits when the remainder is zero
	termOK := false
	// zeroExit: the successor index taken exactly when the shifted remainder is zero (-1: not such a test). The test may
	// be carried in a flag: a phi that is `true` on entry and `remainder != 0` around the loop.
	var zeroExit func(cond ssa.Value, depth int) int
	zeroExit = func(cond ssa.Value, depth int) int {
		if depth > 3 || shr == nil {
			return -1
		}
		switch x := cond.(type) {
		case *ssa.BinOp:
			if x.X == ssa.Value(shr) {
				if k, isK := constInt64(x.Y); isK && k == 0 {
					switch x.Op {
					case token.EQL:
						return 0
					case token.NEQ, token.GTR:
						return 1
					}
				}
			}
		case *ssa.UnOp:
			if x.Op == token.NOT {
				if i := zeroExit(x.X, depth+1); i >= 0 {
					return 1 - i
				}
			}
		case *ssa.Phi:
			idx := -2
			for _, e := range x.Edges {
				if k, ok := e.(*ssa.Const); ok && k.Value != nil && k.Value.Kind() == constant.Bool {
					// entry edge: the loop is entered (true with exit-on-false, false with exit-on-true)
					want := 1
					if !constant.BoolVal(k.Value) {
						want = 0
					}
					if idx == -2 {
						idx = want
					} else if idx != want {
						return -1
					}
					continue
				}
				i := zeroExit(e, depth+1)
				if i < 0 {
					return -1
				}
				if idx == -2 {
					idx = i
				} else if idx != i {
					return -1
				}
			}
			if idx >= 0 {
				return idx
			}
		}
		return -1
	}
	for _, ob := range enc.Blocks {
		if iff := blockIf(ob); iff != nil && shr != nil {
			{
				{
					exitIdx := zeroExit(iff.Cond, 0)
					if exitIdx >= 0 {
						// exit edge leads to a return without passing the loop body again
						s := ob.Succs[exitIdx]
						if len(s.Instrs) > 0 {
							if _, isRet := s.Instrs[len(s.Instrs)-1].(*ssa.Return); isRet {
								termOK = true
							}
						}
					}
				}
			}
		}
	}
	c.check(termOK, "loop ends when no bits remain", enc.Pos(), "exit on remainder == 0 after emitting the digit", "the digit loop does not end exactly when the shifted remainder is zero")
	// … and on no other condition: every edge that leaves the digit loop is a remainder == 0 edge (a bound on the
	// number of digits would cut a large value short and leave the last digit's continuation bit set)
	if shr != nil {
		reach := func(from, to *ssa.BasicBlock) bool {
			seen := map[*ssa.BasicBlock]bool{}
			var dfs func(b *ssa.BasicBlock) bool
			dfs = func(b *ssa.BasicBlock) bool {
				if seen[b] {
					return false
				}
				seen[b] = true
				for _, s2 := range b.Succs {
					if s2 == to || dfs(s2) {
						return true
					}
				}
				return false
			}
			return dfs(from)
		}
		hb := shr.Block()
		inLoop := func(b *ssa.BasicBlock) bool { return b == hb && reach(hb, hb) || reach(b, hb) && reach(hb, b) }
		var other []string
		for _, b := range enc.Blocks {
			if !inLoop(b) {
				continue
			}
			for i, s2 := range b.Succs {
				if inLoop(s2) {
					continue
				}
				isZeroExit := false
				if iff := blockIf(b); iff != nil {
					isZeroExit = zeroExit(iff.Cond, 0) == i
				}
				if !isZeroExit {
					p := ""
					if iff := blockIf(b); iff != nil {
						p = c.pos(iff.Cond.Pos())
					}
					other = append(other, p)
				}
			}
		}
		if reach(hb, hb) {
			c.check(len(other) == 0, "digit loop has no other exit", enc.Pos(), "every edge leaving the loop is the remainder == 0 edge", fmt.Sprintf("the digit loop can also end while bits remain (%s): the value is truncated and the last digit keeps its continuation bit, so the segment swallows the next field", strings.Join(other, ", ")))
		}
	}
}

func posOf(b *ssa.BinOp, f *ssa.Function) token.Pos {
	if b == nil {
		return f.Pos()
	}
	return b.Pos()
}

func r9_3(c *Ctx) {
	names := c.fieldByTypeUsedIn("sourcemap", "SourceMapper", func(t types.Type) bool {
		s, ok := t.Underlying().(*types.Slice)
		if !ok {
			return false
		}
		b, ok := s.Elem().Underlying().(*types.Basic)
		return ok && b.Kind() == types.String
	}, "(*sourcemap.SourceMapper).AddNamedMapping")
	idx := c.fieldByTypeUsedIn("sourcemap", "SourceMapper", func(t types.Type) bool {
		_, ok := t.Underlying().(*types.Map)
		return ok
	}, "(*sourcemap.SourceMapper).AddNamedMapping")
	add := c.fn("(*sourcemap.SourceMapper).AddNamedMapping")
	ctor := c.fn("sourcemap.New")
	if names == nil || idx == nil || add == nil || ctor == nil {
		c.unres("anchors", token.NoPos, "names/nameIndex fields, AddNamedMapping or New not found")
		return
	}
	// the interner: AddNamedMapping itself, or a private helper it calls with its name parameter
	outer := add
	var internCall *ssa.Call
	hasLookup := func(f *ssa.Function) bool {
		found := false
		allInstrs(f, func(_ *ssa.BasicBlock, _ int, in ssa.Instruction) {
			if lk, ok := in.(*ssa.Lookup); ok && lk.CommaOk {
				if _, ok := isFieldLoad(lk.X, idx); ok {
					found = true
				}
			}
		})
		return found
	}
	if !hasLookup(add) {
		allInstrs(add, func(_ *ssa.BasicBlock, _ int, in ssa.Instruction) {
			call, ok := in.(*ssa.Call)
			if !ok || internCall != nil {
				return
			}
			h := call.Call.StaticCallee()
			if h == nil || h.Pkg != add.Pkg || !hasLookup(h) || h.Signature.Results().Len() != 1 {
				return
			}
			if _, closed := c.argsAtCallers(h, 0); !closed {
				return
			}
			internCall = call
		})
		if internCall != nil {
			add = internCall.Call.StaticCallee()
		}
	}
	for _, f := range c.libFunctions() {
		allInstrs(f, func(_ *ssa.BasicBlock, _ int, in ssa.Instruction) {
			switch x := in.(type) {
			case *ssa.Store:
				if fa, ok := x.Addr.(*ssa.FieldAddr); ok && (fieldOfAddr(fa) == names || fieldOfAddr(fa) == idx) && f != add && f != ctor {
					c.bad(fnName(f)+": writes the name table", x.Pos(), "only New and AddNamedMapping may write names/nameIndex")
				}
			case *ssa.MapUpdate:
				if _, ok := isFieldLoad(x.Map, idx); ok && f != add {
					c.bad(fnName(f)+": writes the name index", x.Pos(), "only AddNamedMapping may record name indices")
				}
			}
		})
	}
	var lookup *ssa.Lookup
	var nameParam *ssa.Parameter
	for _, p := range add.Params {
		if b, ok := p.Type().Underlying().(*types.Basic); ok && b.Kind() == types.String {
			nameParam = p
		}
	}
	allInstrs(add, func(_ *ssa.BasicBlock, _ int, in ssa.Instruction) {
		if lk, ok := in.(*ssa.Lookup); ok && lk.CommaOk {
			if _, ok := isFieldLoad(lk.X, idx); ok && lk.Index == ssa.Value(nameParam) {
				lookup = lk
			}
		}
	})
	if lookup == nil {
		c.bad("AddNamedMapping: memo lookup", add.Pos(), "the name is not looked up in the index: names are not deduplicated")
		return
	}
	c.ok("AddNamedMapping: memo lookup", lookup.Pos(), "nameIndex[name] with the name parameter")
	// the NameIndex stored in the mapping
	var nameIdxStore *ssa.Store
	nstores := 0
	for _, f := range c.libFunctions("sourcemap") {
		allInstrs(f, func(_ *ssa.BasicBlock, _ int, in ssa.Instruction) {
			if st, ok := in.(*ssa.Store); ok {
				if fa, ok := st.Addr.(*ssa.FieldAddr); ok && namedIs(fa.X.Type(), "sourcemap", "Mapping") && fieldOfAddr(fa).Name() == "NameIndex" {
					if k, isK := constInt64(st.Val); isK && k == 0 {
						return // an unnamed mapping
					}
					nameIdxStore = st
					nstores++
				}
			}
		})
	}
	if nameIdxStore == nil || nstores != 1 {
		c.bad("AddNamedMapping: NameIndex of the mapping", add.Pos(), "expected exactly one store of a NameIndex, found %d", nstores)
		return
	}
	// value: phi[hit: extract 0 of the lookup, miss: len(names) taken before the append]
	var hitV, missV ssa.Value
	var vals []ssa.Value
	result := nameIdxStore.Val
	if internCall != nil {
		// the mapping gets the helper's result for this very name (directly, or through a recording helper's parameter)
		okArg := false
		for i, a := range internCall.Call.Args {
			if i > 0 && a == ssa.Value(outerNameParam(outer)) {
				okArg = true
			}
		}
		flows := result == ssa.Value(internCall)
		if par, isPar := result.(*ssa.Parameter); isPar && !flows {
			pi := -1
			for i, q := range par.Parent().Params {
				if q == par {
					pi = i
				}
			}
			if args, closed := c.argsAtCallers(par.Parent(), pi); closed {
				n := 0
				for _, a := range args {
					if a == ssa.Value(internCall) {
						n++
					} else if k, isK := constInt64(a); !isK || k != 0 {
						n = -100
					}
				}
				flows = n == 1
			}
		}
		if !okArg || !flows {
			c.bad("AddNamedMapping: NameIndex of the mapping", nameIdxStore.Pos(), "the mapping's NameIndex is not the interner's result for the name being mapped")
			return
		}
		result = nil
		allInstrs(add, func(_ *ssa.BasicBlock, _ int, in ssa.Instruction) {
			if ret, ok := in.(*ssa.Return); ok && len(ret.Results) == 1 {
				if result != nil && result != ret.Results[0] {
					vals = append(vals, result) // an earlier return with another value (early return on a hit)
				}
				result = ret.Results[0]
			}
		})
		if result == nil {
			c.bad("AddNamedMapping: NameIndex of the mapping", add.Pos(), "the interner returns nothing")
			return
		}
	}
	if phi, ok := result.(*ssa.Phi); ok {
		vals = append(vals, phi.Edges...)
	} else {
		vals = append(vals, result)
	}
	for _, v := range vals {
		if ex, ok := v.(*ssa.Extract); ok && ex.Tuple == ssa.Value(lookup) && ex.Index == 0 {
			hitV = v
		} else {
			missV = v
		}
	}
	if hitV == nil || missV == nil {
		c.bad("AddNamedMapping: index on hit and miss", nameIdxStore.Pos(), "the mapping's NameIndex must be the stored index on a hit and the new index on a miss")
		return
	}
	// miss path: len before append; append(name); nameIndex[name] = that len
	var appendStore *ssa.Store
	var upd *ssa.MapUpdate
	allInstrs(add, func(_ *ssa.BasicBlock, _ int, in ssa.Instruction) {
		switch x := in.(type) {
		case *ssa.Store:
			if _, ok := isFieldAddr(x.Addr, names); ok {
				appendStore = x
			}
		case *ssa.MapUpdate:
			if _, ok := isFieldLoad(x.Map, idx); ok {
				upd = x
			}
		}
	})
	lenCall, isLen := isBuiltinCall(missV, "len")
	okLen := false
	if isLen {
		_, okLen = isFieldLoad(lenCall.Call.Args[0], names)
	}
	okMiss := okLen && appendStore != nil && upd != nil && instrDominates(lenCall, appendStore) && upd.Key == ssa.Value(nameParam) && upd.Value == missV
	if okMiss {
		app, isApp := isBuiltinCall(appendStore.Val, "append")
		okMiss = false
		if isApp {
			if el, ok := sliceLitElems(app.Call.Args[1]); ok && len(el) == 1 && el[0] == ssa.Value(nameParam) {
				okMiss = true
			}
		}
	}
	c.check(okMiss, "AddNamedMapping: miss path", nameIdxStore.Pos(), "index = len(names) before append(names, name); nameIndex[name] = index", "on a miss the index must be the length of the name list BEFORE the append, the name itself must be appended, and that index recorded under the name (otherwise indices are off by one or unstable)")
	// hit path is write-free: the writes are not reachable on the hit edge
	hitFree := true
	for _, ob := range add.Blocks {
		if iff := blockIf(ob); iff != nil {
			if ex, ok := iff.Cond.(*ssa.Extract); ok && ex.Tuple == ssa.Value(lookup) && ex.Index == 1 {
				var ws []ssa.Instruction
				if appendStore != nil {
					ws = append(ws, appendStore)
				}
				if upd != nil {
					ws = append(ws, upd)
				}
				for _, w := range ws {
					if !condEdgeDominates(ob, false, w.Block()) {
						hitFree = false
					}
				}
			}
		}
	}
	c.check(hitFree && appendStore != nil, "AddNamedMapping: hit path is write-free", lookup.Pos(), "names/nameIndex are written only on the miss edge", "a memo hit still writes the name table: names are duplicated")
}

func r9_4(c *Ctx, E *ssa.Function) {
	names := c.fieldByTypeUsedIn("sourcemap", "SourceMapper", func(t types.Type) bool {
		s, ok := t.Underlying().(*types.Slice)
		if !ok {
			return false
		}
		b, ok := s.Elem().Underlying().(*types.Basic)
		return ok && b.Kind() == types.String
	}, "(*sourcemap.SourceMapper).AddNamedMapping")
	n := 0
	for _, f := range c.libFunctions() {
		allInstrs(f, func(_ *ssa.BasicBlock, _ int, in ssa.Instruction) {
			al, ok := in.(*ssa.Alloc)
			if !ok || !namedIs(al.Type(), "sourcemap", "SourceMap") {
				return
			}
			n++
			key := fmt.Sprintf("%s: SourceMap literal #%d", fnName(f), n)
			var ver, nm, mp ssa.Value
			for _, r := range *al.Referrers() {
				fa, ok := r.(*ssa.FieldAddr)
				if !ok {
					continue
				}
				for _, r2 := range *fa.Referrers() {
					if st, ok := r2.(*ssa.Store); ok && st.Addr == ssa.Value(fa) {
						switch fieldOfAddr(fa).Name() {
						case "Version":
							ver = st.Val
						case "Names":
							nm = st.Val
						case "Mappings":
							mp = st.Val
						}
					}
				}
			}
			k, isK := int64(0), false
			if ver != nil {
				k, isK = constInt64(ver)
			}
			c.check(isK && k == 3, key+": Version", al.Pos(), "3", "the produced map does not have version 3")
			_, okN := isFieldLoad(nm, names)
			c.check(nm != nil && okN, key+": Names", al.Pos(), "the interned name list", "Names is not the interned name list")
			call, isCall := mp.(*ssa.Call)
			c.check(isCall && call.Call.StaticCallee() == E, key+": Mappings", al.Pos(), "the encoder's result", "Mappings is not the result of the mappings encoder")
		})
	}
	if n == 0 {
		c.unres("SourceMap literal", token.NoPos, "no function builds a sourcemap.SourceMap")
	}
}

// ---- R9.5 ---------------------------------------------------------------------------------

func r9_5(c *Ctx) {
	line := c.fieldByName("sourcemap", "SourceMapper", "generatedLine")
	col := c.fieldByName("sourcemap", "SourceMapper", "generatedColumn")
	if line == nil || col == nil {
		// by role: the two int fields copied into Mapping.GeneratedLine / GeneratedColumn by AddMapping
		if am := c.fn("(*sourcemap.SourceMapper).AddMapping"); am != nil {
			allInstrs(am, func(_ *ssa.BasicBlock, _ int, in ssa.Instruction) {
				if st, ok := in.(*ssa.Store); ok {
					if fa, ok := st.Addr.(*ssa.FieldAddr); ok && namedIs(fa.X.Type(), "sourcemap", "Mapping") {
						if u, ok := st.Val.(*ssa.UnOp); ok {
							if sfa, ok := u.X.(*ssa.FieldAddr); ok {
								switch fieldOfAddr(fa).Name() {
								case "GeneratedLine":
									line = fieldOfAddr(sfa)
								case "GeneratedColumn":
									col = fieldOfAddr(sfa)
								}
							}
						}
					}
				}
			})
		}
	}
	if line == nil || col == nil {
		c.unres("position fields", token.NoPos, "generated line/column fields of the mapper not found")
		return
	}
	// who may write: constructor and exported Advance* methods; each write is +non-negative, or line+1 with column=0
	writers := map[string]bool{}
	for _, f := range c.libFunctions() {
		allInstrs(f, func(_ *ssa.BasicBlock, _ int, in ssa.Instruction) {
			st, ok := in.(*ssa.Store)
			if !ok {
				return
			}
			fa, ok := st.Addr.(*ssa.FieldAddr)
			if !ok || (fieldOfAddr(fa) != line && fieldOfAddr(fa) != col) {
				return
			}
			writers[fnName(f)] = true
			okW := pkgPathOf(f) == modPath+"/sourcemap" && (f.Name() == "New" || strings.HasPrefix(f.Name(), "Advance"))
			if !okW {
				c.bad(fnName(f)+": writes the generated position", st.Pos(), "only the constructor and the Advance methods may move the generated position")
			}
		})
	}
	c.Tables["generated_position_writers"] = sortedKeys(writers)
	as := c.fn("(*sourcemap.SourceMapper).AdvanceString")
	if as == nil {
		c.unres("AdvanceString", token.NoPos, "not found")
		return
	}
	s := as.Params[1]
	// loop header: the block with the index phi compared against len(s)
	var header *ssa.BasicBlock
	var iPhi *ssa.Phi
	for _, b := range as.Blocks {
		if iff := blockIf(b); iff != nil {
			if bo, ok := iff.Cond.(*ssa.BinOp); ok && bo.Op == token.LSS {
				if phi, ok := bo.X.(*ssa.Phi); ok && phi.Block() == b {
					if l, ok := isBuiltinCall(bo.Y, "len"); ok && l.Call.Args[0] == ssa.Value(s) {
						header, iPhi = b, phi
					}
				}
			}
		}
	}
	if header == nil {
		c.unres("AdvanceString: loop", as.Pos(), "no `for i < len(s)` loop with an index variable found")
		return
	}
	latchIdx := -1
	for i, p := range header.Preds {
		if header.Dominates(p) {
			latchIdx = i
		}
	}
	// enumerate iteration paths: from the body entry back to the header
	type iterPath struct {
		blocks []*ssa.BasicBlock
	}
	var paths []iterPath
	var rec func(b *ssa.BasicBlock, acc []*ssa.BasicBlock, on map[*ssa.BasicBlock]bool)
	rec = func(b *ssa.BasicBlock, acc []*ssa.BasicBlock, on map[*ssa.BasicBlock]bool) {
		if b == header {
			paths = append(paths, iterPath{append([]*ssa.BasicBlock(nil), acc...)})
			return
		}
		if on[b] || len(paths) > 500 {
			return
		}
		on[b] = true
		acc = append(acc, b)
		for _, sx := range b.Succs {
			rec(sx, acc, on)
		}
		delete(on, b)
	}
	rec(header.Succs[0], nil, map[*ssa.BasicBlock]bool{})
	if len(paths) == 0 || latchIdx < 0 {
		c.unres("AdvanceString: iteration paths", as.Pos(), "none found")
		return
	}
	// linear value i + k along a path
	var lin func(v ssa.Value, path []*ssa.BasicBlock) (int64, bool)
	lin = func(v ssa.Value, path []*ssa.BasicBlock) (int64, bool) {
		if v == ssa.Value(iPhi) {
			return 0, true
		}
		switch x := v.(type) {
		case *ssa.BinOp:
			if x.Op == token.ADD {
				if k, ok := constInt64(x.Y); ok {
					b, ok := lin(x.X, path)
					return b + k, ok
				}
			}
		case *ssa.Phi:
			// choose the edge whose predecessor precedes the phi's block on the path
			for pi, pb := range path {
				if pb == x.Block() && pi > 0 {
					for ei, pred := range x.Block().Preds {
						if pred == path[pi-1] {
							return lin(x.Edges[ei], path)
						}
					}
				}
			}
		}
		return 0, false
	}
	byteAt := func(v ssa.Value, path []*ssa.BasicBlock) (int64, bool) { // v = s[i+k]
		ix, ok := v.(*ssa.Index)
		if !ok || ix.X != ssa.Value(s) {
			return 0, false
		}
		return lin(ix.Index, path)
	}
	classes := map[string]int{}
	for pi, p := range paths {
		// facts
		isCR, isLF, nextLF := 0, 0, 0 // 1 true, -1 false, 0 unknown
		infeasible := false
		for bi, b := range p.blocks {
			iff := blockIf(b)
			if iff == nil || bi+1 > len(p.blocks) {
				continue
			}
			var nxt *ssa.BasicBlock
			if bi+1 < len(p.blocks) {
				nxt = p.blocks[bi+1]
			} else {
				nxt = header
			}
			taken := 0
			if b.Succs[0] == nxt {
				taken = 1
			} else {
				taken = -1
			}
			// strings.HasPrefix(s[i+k:], "<one byte>"): true exactly when byte i+k exists and equals it
			if hp, ok := iff.Cond.(*ssa.Call); ok && hp.Call.StaticCallee() != nil && pkgPathOf(hp.Call.StaticCallee()) == "strings" && hp.Call.StaticCallee().Name() == "HasPrefix" {
				if sl, ok := hp.Call.Args[0].(*ssa.Slice); ok && sl.X == ssa.Value(s) && sl.Low != nil && sl.High == nil {
					if kc, ok := hp.Call.Args[1].(*ssa.Const); ok && kc.Value != nil && kc.Value.Kind() == constant.String && constant.StringVal(kc.Value) == "\n" {
						if off, ok := lin(sl.Low, p.blocks); ok && off == 1 {
							if nextLF == -taken {
								infeasible = true
							}
							nextLF = taken
						}
					}
				}
			}
			if bo, ok := iff.Cond.(*ssa.BinOp); ok && (bo.Op == token.EQL || bo.Op == token.NEQ) {
				if bo.Op == token.NEQ {
					taken = -taken
				}
				set := func(f *int) {
					if *f == -taken {
						infeasible = true
					}
					*f = taken
				}
				if k, ok := constInt64(unwrap(bo.Y)); ok {
					if off, ok := byteAt(bo.X, p.blocks); ok {
						switch {
						case off == 0 && k == '\r':
							set(&isCR)
						case off == 0 && k == '\n':
							set(&isLF)
						case off == 1 && k == '\n':
							set(&nextLF)
						}
					}
				}
			}
		}
		// one byte cannot be both CR and LF
		if isCR == 1 && isLF == 1 || infeasible {
			continue
		}
		// effects
		lines, colZero, colInc, other := 0, 0, 0, 0
		var effects func(instrs []ssa.Instruction, depth int)
		effects = func(instrs []ssa.Instruction, depth int) {
			for _, in := range instrs {
				if call, isCall := in.(*ssa.Call); isCall {
					// a method of the mapper: its straight-line body counts as if written here
					if cal := call.Call.StaticCallee(); cal != nil && cal.Pkg == as.Pkg && cal.Signature.Recv() != nil && len(call.Call.Args) > 0 && call.Call.Args[0] == ssa.Value(as.Params[0]) {
						if len(cal.Blocks) == 1 && depth < 2 {
							effects(cal.Blocks[0].Instrs, depth+1)
						} else {
							other++
						}
					}
					continue
				}
				st, ok := in.(*ssa.Store)
				if !ok {
					continue
				}
				fa, ok := st.Addr.(*ssa.FieldAddr)
				if !ok {
					continue
				}
				switch fieldOfAddr(fa) {
				case line:
					if bo, ok := st.Val.(*ssa.BinOp); ok && bo.Op == token.ADD {
						if k, ok := constInt64(bo.Y); ok && k == 1 {
							if _, ok := isFieldLoad(bo.X, line); ok {
								lines++
								continue
							}
						}
					}
					other++
				case col:
					if k, ok := constInt64(st.Val); ok && k == 0 {
						colZero++
						continue
					}
					if bo, ok := st.Val.(*ssa.BinOp); ok && bo.Op == token.ADD {
						if k, ok := constInt64(bo.Y); ok && k == 1 {
							if _, ok := isFieldLoad(bo.X, col); ok {
								colInc++
								continue
							}
						}
					}
					other++
				}
			}
		}
		for _, b := range p.blocks {
			effects(b.Instrs, 0)
		}
		adv, okAdv := lin(iPhi.Edges[latchIdx], append(append([]*ssa.BasicBlock(nil), p.blocks...), header))
		if !okAdv {
			// the latch value may be defined in the last block; evaluate with the path as is
			adv, okAdv = lin(iPhi.Edges[latchIdx], p.blocks)
		}
		class := "other byte"
		switch {
		case isCR == 1 && nextLF == 1:
			class = "CR LF"
		case isCR == 1:
			class = "lone CR"
		case isLF == 1:
			class = "LF"
		}
		classes[class]++
		key := fmt.Sprintf("AdvanceString: iteration path #%d (%s)", pi+1, class)
		want := "one line, column 0"
		good := false
		switch class {
		case "CR LF":
			good = lines == 1 && colZero >= 1 && colInc == 0 && other == 0 && okAdv && adv == 2
			want += ", index +2"
		case "lone CR", "LF":
			good = lines == 1 && colZero >= 1 && colInc == 0 && other == 0 && okAdv && adv == 1
			want += ", index +1"
		default:
			good = lines == 0 && colZero == 0 && colInc == 1 && other == 0 && okAdv && adv == 1
			want = "column +1, index +1"
		}
		c.check(good, key, p.blocks[0].Instrs[0].Pos(), want, fmt.Sprintf("a %s must give %s; this path gives lines+%d, column:=0 ×%d, column+1 ×%d, other writes %d, index +%d (resolved=%v)", class, want, lines, colZero, colInc, other, adv, okAdv))
	}
	for _, cl := range []string{"CR LF", "lone CR", "LF", "other byte"} {
		c.check(classes[cl] > 0, "AdvanceString handles "+cl, as.Pos(), "a path exists", "no iteration path treats "+cl+" (\\n, \\r\\n and \\r must each count as one line break)")
	}
	var ws []string
	for w := range writers {
		ws = append(ws, w)
	}
	sort.Strings(ws)
}

func outerNameParam(f *ssa.Function) *ssa.Parameter {
	var out *ssa.Parameter
	for _, p := range f.Params {
		if b, ok := p.Type().Underlying().(*types.Basic); ok && b.Kind() == types.String {
			out = p
		}
	}
	return out
}

// repeatOf: call is WriteString(strings.Repeat("<ch>", n)); returns n and the Repeat call.
func repeatOf(call *ssa.Call, ch byte) (ssa.Value, *ssa.Call) {
	cal := call.Call.StaticCallee()
	if cal == nil || pkgPathOf(cal) != "strings" || cal.Name() != "WriteString" || len(call.Call.Args) != 2 {
		return nil, nil
	}
	rep, ok := call.Call.Args[1].(*ssa.Call)
	if !ok || rep.Call.StaticCallee() == nil || pkgPathOf(rep.Call.StaticCallee()) != "strings" || rep.Call.StaticCallee().Name() != "Repeat" {
		return nil, nil
	}
	k, ok := rep.Call.Args[0].(*ssa.Const)
	if !ok || k.Value == nil || k.Value.Kind() != constant.String || constant.StringVal(k.Value) != string(ch) {
		return nil, nil
	}
	return rep.Call.Args[1], rep
}

// loopsBackTo: from block b the block target is reachable again without passing through avoid.
func loopsBackTo(b, target, avoid *ssa.BasicBlock) bool {
	seen := map[*ssa.BasicBlock]bool{}
	work := append([]*ssa.BasicBlock(nil), b.Succs...)
	for len(work) > 0 {
		x := work[len(work)-1]
		work = work[:len(work)-1]
		if seen[x] || x == avoid && x != target {
			continue
		}
		seen[x] = true
		if x == target {
			return true
		}
		work = append(work, x.Succs...)
	}
	return false
}

// signConversionFolds evaluates the straight-line / branching prefix of the encoder up to its first loop for a few
// values of n and reads the value each header phi receives from outside the loop. The phi the digit mask reads must
// start as (|n| << 1) | (1 if n < 0).
func signConversionFolds(enc *ssa.Function, and *ssa.BinOp) bool {
	h := loopHeader(enc)
	if h == nil || len(enc.Params) != 1 {
		return false
	}
	// the header phis the masked value derives from
	target := map[*ssa.Phi]bool{}
	seen := map[ssa.Value]bool{}
	var walk func(v ssa.Value)
	walk = func(v ssa.Value) {
		if v == nil || seen[v] {
			return
		}
		seen[v] = true
		switch x := v.(type) {
		case *ssa.Phi:
			if x.Block() == h {
				target[x] = true
				return
			}
			for _, e := range x.Edges {
				walk(e)
			}
		case *ssa.BinOp:
			walk(x.X)
		case *ssa.Convert:
			walk(x.X)
		}
	}
	walk(and.X)
	if len(target) != 1 {
		return false
	}
	for _, n := range []int64{0, 1, -1, 2, -2, 15, -16, 31, -31, 1000, -1000, 123456, -123456} {
		env := map[ssa.Value]constant.Value{enc.Params[0]: constant.MakeInt64(n)}
		get := func(v ssa.Value) (constant.Value, bool) {
			if k, ok := v.(*ssa.Const); ok {
				if k.Value == nil {
					return nil, false
				}
				return k.Value, true
			}
			cv, ok := env[v]
			return cv, ok
		}
		blk := enc.Blocks[0]
		var prev *ssa.BasicBlock
		steps := 0
		for blk != h {
			steps++
			if steps > 200 {
				return false
			}
			var next *ssa.BasicBlock
			for _, in := range blk.Instrs {
				switch x := in.(type) {
				case *ssa.DebugRef:
				case *ssa.Phi:
					for i, p := range blk.Preds {
						if p == prev {
							if cv, ok := get(x.Edges[i]); ok {
								env[x] = cv
							}
						}
					}
				case *ssa.BinOp:
					a, ok1 := get(x.X)
					b, ok2 := get(x.Y)
					if !ok1 || !ok2 {
						continue
					}
					switch x.Op {
					case token.EQL, token.NEQ, token.LSS, token.LEQ, token.GTR, token.GEQ:
						env[x] = constant.MakeBool(constant.Compare(constant.ToInt(a), x.Op, constant.ToInt(b)))
					case token.SHL, token.SHR:
						sh, _ := constant.Uint64Val(constant.ToInt(b))
						env[x] = constant.Shift(constant.ToInt(a), x.Op, uint(sh))
					case token.ADD, token.SUB, token.MUL, token.OR, token.AND, token.XOR:
						env[x] = constant.BinaryOp(constant.ToInt(a), x.Op, constant.ToInt(b))
					}
				case *ssa.UnOp:
					if a, ok := get(x.X); ok && x.Op == token.SUB {
						env[x] = constant.UnaryOp(token.SUB, constant.ToInt(a), 0)
					}
				case *ssa.Convert:
					if a, ok := get(x.X); ok {
						env[x] = a
					}
				case *ssa.If:
					cv, ok := get(x.Cond)
					if !ok || cv.Kind() != constant.Bool {
						return false
					}
					if constant.BoolVal(cv) {
						next = blk.Succs[0]
					} else {
						next = blk.Succs[1]
					}
				case *ssa.Jump:
					next = blk.Succs[0]
				case *ssa.Return:
					return false // returns before the loop for this value: not the shape this fold reads
				}
			}
			if next == nil {
				return false
			}
			prev, blk = blk, next
		}
		for phi := range target {
			var got constant.Value
			for i, p := range h.Preds {
				if p == prev {
					got, _ = get(phi.Edges[i])
				}
			}
			if got == nil {
				return false
			}
			abs := n
			sign := int64(0)
			if n < 0 {
				abs, sign = -n, 1
			}
			want := constant.MakeInt64(abs<<1 | sign)
			if !constant.Compare(constant.ToInt(got), token.EQL, want) {
				return false
			}
		}
	}
	return true
}
