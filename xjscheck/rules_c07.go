package main

import (
	"fmt"
	"go/constant"
	"go/token"
	"go/types"
	"os"
	"sort"
	"strings"

	"golang.org/x/tools/go/ssa"
)

func init() {
	register("C07", &propSpec{
		run: runC07,
		explanation: "What a literal DENOTES is not decided (escape decoding and UTF-8 arithmetic are runtime values). Decided is that the emitted literal is well delimited and, for numbers, verbatim — on every path and for every byte value (byte-set abstract interpretation of the scanners, one context per source delimiter): " +
			"R7.1/R7.2 for the string and backtick printers the output delimiter D is read from the printer; every byte sink of the scanner's result buffer is enumerated with the set of bytes it can write; a sink is safe when it is the second byte of a preserved escape pair (immediately preceded by a written backslash), a constant that is neither D nor a line terminator (a constant backslash must be followed by its pair), a verbatim source byte whose set excludes D (unless the printer neutralises D), or a computed byte whose set excludes D, backslash and the line terminators; " +
			"R7.3 number literals are emitted verbatim: the printers write exactly Token.Literal, the parser stores the current token unchanged, and the literal is the source slice (C10 R10.4); " +
			"R7.4 the integer/float parse methods branch on strconv's error and return nil on the error edge; " +
			"R7.5 the code-point encoder has RFC 3629's range boundaries, lengths, markers, shifts and masks; R7.6 in every delimited scanner a backslash takes the next byte with it; R7.7 the scanners keep no state between characters; " +
			"R7.8 in a scanner whose rounds can all be walked path by path, every round writes what it consumes (a backslash the printer restores and an escape the scanner adds are the accounted differences); " +
			"R7.9 the digit-value function the escape decoders accumulate with gives 0..15 for the 22 hexadecimal digits and the hexadecimal digit test is true for exactly those bytes (both folded for every byte value). " +
			"Genuine defects found by R7.1 are listed as known findings (decoded \\xHH/\\uHHHH/\\u{…} escapes can produce the delimiter, a backslash or a line terminator) or repaired.",
		notDecided: []string{"the value an escape sequence decodes to beyond digit values (R7.9) and encoder constants (R7.5): the accumulation arithmetic itself", "surrogate pairs", "whether strconv's accepted number syntax equals ECMAScript's"},
	})
}

type sinkInfo struct {
	call    *ssa.Call
	set     bset
	class   string // "const", "verbatim", "computed"
	paired  bool   // immediately preceded by a written backslash (second byte of an escape pair)
	escape  string // the escape form this sink belongs to, for stable keys
	ord     int
	direct  bool // the current byte itself
	first   bool // first sink of its block
	isBsl   bool // constant backslash
	hasNext bool // another sink follows in the same block
	multi   bool // constant text of several bytes: set holds the bytes not protected by a backslash inside it
}

// bufferOf: the strings.Builder local of a scanner.
func resultBuilder(f *ssa.Function) *ssa.Alloc {
	var out *ssa.Alloc
	allInstrs(f, func(_ *ssa.BasicBlock, _ int, in ssa.Instruction) {
		if al, ok := in.(*ssa.Alloc); ok {
			if n := namedOf(deref(al.Type())); n != nil && n.Obj().Pkg() != nil && n.Obj().Pkg().Path() == "strings" && n.Obj().Name() == "Builder" {
				out = al
			}
		}
	})
	return out
}

func isSinkCall(call *ssa.Call, buf *ssa.Alloc) bool {
	cal := call.Call.StaticCallee()
	if cal == nil || pkgPathOf(cal) != "strings" || len(call.Call.Args) != 2 || call.Call.Args[0] != ssa.Value(buf) {
		return false
	}
	switch cal.Name() {
	case "WriteByte", "WriteRune", "WriteString", "Write":
		return true
	}
	return false
}

// escapeContext: which escape form the block belongs to, from the dominating tests of the current/look-ahead byte.
func escapeContext(lf *lexFacts, cx *lexCtx, b *ssa.BasicBlock) string {
	f := cx.fn
	var tags []string
	for _, ob := range f.Blocks {
		iff := blockIf(ob)
		if iff == nil || !condEdgeDominates(ob, true, b) {
			continue
		}
		bo, ok := iff.Cond.(*ssa.BinOp)
		if !ok || bo.Op != token.EQL {
			continue
		}
		k, ok := constInt64(unwrap(bo.Y))
		if !ok || k < 32 || k > 126 {
			continue
		}
		tags = append(tags, fmt.Sprintf("%d:%c", ob.Index, rune(k)))
	}
	sort.Slice(tags, func(i, j int) bool {
		var a, b2 int
		fmt.Sscanf(tags[i], "%d:", &a)
		fmt.Sscanf(tags[j], "%d:", &b2)
		return a < b2
	})
	var out []string
	for _, t := range tags {
		out = append(out, t[strings.Index(t, ":")+1:])
	}
	return strings.Join(out, "")
}

func collectSinks(lf *lexFacts, cx *lexCtx) []sinkInfo {
	f := cx.fn
	buf := resultBuilder(f)
	if buf == nil {
		return nil
	}
	var out []sinkInfo
	ordByEsc := map[string]int{}
	for _, b := range f.Blocks {
		var prev *sinkInfo
		for _, in := range b.Instrs {
			call, ok := in.(*ssa.Call)
			if !ok || !isSinkCall(call, buf) {
				continue
			}
			st := cx.before[call]
			if st == nil || !st.live {
				continue
			}
			si := classifySink(lf, cx, st, call, prev != nil && prev.isBsl && !prev.paired)
			if prev != nil && prev.isBsl && !prev.paired && !si.multi {
				si.paired = true
			}
			si.first = prev == nil
			si.escape = escapeContext(lf, cx, b)
			ordByEsc[si.escape+si.class]++
			si.ord = ordByEsc[si.escape+si.class]
			out = append(out, si)
			if prev != nil {
				out[len(out)-2].hasNext = true
			}
			prev = &out[len(out)-1]
		}
	}
	return out
}

// endsInLoneBackslash: the constant ends in an odd run of backslashes (complete pairs escape each other).
func endsInLoneBackslash(v ssa.Value) bool {
	k := unwrap(v).(*ssa.Const)
	switch k.Value.Kind() {
	case constant.Int:
		i, ok := constant.Int64Val(k.Value)
		return ok && i == '\\'
	case constant.String:
		str := constant.StringVal(k.Value)
		n := 0
		for n < len(str) && str[len(str)-1-n] == '\\' {
			n++
		}
		return n%2 == 1
	}
	return false
}

func isConstByteLike(v ssa.Value) bool {
	k, ok := unwrap(v).(*ssa.Const)
	return ok && k.Value != nil
}

func constBytes(v ssa.Value) bset {
	k := unwrap(v).(*ssa.Const)
	var s bset
	switch k.Value.Kind() {
	case constant.Int:
		if i, ok := constant.Int64Val(k.Value); ok && i >= 0 && i < 256 {
			s.add(byte(i))
		} else {
			return allBytes
		}
	case constant.String:
		for _, b := range []byte(constant.StringVal(k.Value)) {
			s.add(b)
		}
	}
	return s
}

func fromByteSlice(v ssa.Value) bool {
	u, ok := v.(*ssa.UnOp)
	if !ok {
		return false
	}
	ia, ok := u.X.(*ssa.IndexAddr)
	if !ok || !isByteSlice(ia.X.Type()) {
		return false
	}
	// a local slice built by append (not a call result)
	switch ia.X.(type) {
	case *ssa.Phi:
		return true
	case *ssa.Call:
		_, isAppend := isBuiltinCall(ia.X, "append")
		return isAppend
	}
	return false
}

// literalPrinter: for a token type, the node the parser builds for it and how its printer delimits the value.
type literalPrinter struct {
	node       string
	delim      byte
	neutral    bset // bytes the printer escapes before writing
	pos        token.Pos
	verbatimOf string // "Value" or "Token.Literal"
}

func literalPrinterFor(c *Ctx, t *tables, tokType int64) (*literalPrinter, string) {
	m := t.pt.prefix[tokType]
	if m == nil {
		return nil, "no prefix entry for " + t.tc.name(tokType)
	}
	nodes := c.constructedNodes(m)
	if len(nodes) != 1 {
		return nil, "prefix method builds no single node"
	}
	nt := t.pr.exprs[nodes[0]]
	if nt == nil {
		return nil, "node type not found"
	}
	wt := methodFn(c, nt, "WriteTo")
	lp := &literalPrinter{node: nodes[0], pos: wt.Pos()}
	// sequence of writes in the printer
	type w struct {
		konst  bool
		val    bset
		field  string
		call   *ssa.Call
		replOK bool
	}
	var ws []w
	allInstrs(wt, func(_ *ssa.BasicBlock, _ int, in ssa.Instruction) {
		call, ok := in.(*ssa.Call)
		if !ok {
			return
		}
		cal := call.Call.StaticCallee()
		if cal == nil || (fnName(cal) != "(*ast.CodeWriter).WriteRune" && fnName(cal) != "(*ast.CodeWriter).WriteString") {
			return
		}
		arg := call.Call.Args[1]
		if isConstByteLike(arg) {
			ws = append(ws, w{konst: true, val: constBytes(arg), call: call})
			return
		}
		x := w{call: call}
		// strings.ReplaceAll(value, D, "\\"+D)
		if rc, ok := arg.(*ssa.Call); ok && rc.Call.StaticCallee() != nil && pkgPathOf(rc.Call.StaticCallee()) == "strings" && rc.Call.StaticCallee().Name() == "ReplaceAll" {
			o, okO := rc.Call.Args[1].(*ssa.Const)
			n, okN := rc.Call.Args[2].(*ssa.Const)
			if okO && okN && o.Value.Kind() == constant.String && n.Value.Kind() == constant.String {
				os, ns := constant.StringVal(o.Value), constant.StringVal(n.Value)
				if len(os) == 1 && ns == "\\"+os {
					x.replOK = true
					lp.neutral.add(os[0])
				}
			}
			arg = rc.Call.Args[0]
		}
		if u, ok := arg.(*ssa.UnOp); ok {
			if fa, ok := u.X.(*ssa.FieldAddr); ok {
				x.field = fieldOfAddr(fa).Name()
				if fa2, ok := fa.X.(*ssa.FieldAddr); ok {
					x.field = fieldOfAddr(fa2).Name() + "." + x.field
				}
			}
		}
		ws = append(ws, x)
	})
	for i, x := range ws {
		if x.field == "" {
			continue
		}
		lp.verbatimOf = x.field
		if i > 0 && i+1 < len(ws) && ws[i-1].konst && ws[i+1].konst && ws[i-1].val == ws[i+1].val {
			if d, ok := ws[i-1].val.single(); ok {
				lp.delim = d
			}
		}
	}
	if lp.verbatimOf == "" {
		return nil, "printer of " + lp.node + " writes no field of the node"
	}
	return lp, ""
}

func runC07(c *Ctx) {
	t := c.tables()
	lf := c.lexFacts()
	la := lexerAnchors(c)
	c.rule("R7.0", "anchors: scanners per source delimiter, printers and their output delimiter")
	for _, p := range lf.problems {
		c.unres("anchors", token.NoPos, "%s", p)
	}
	if len(lf.problems) > 0 || c.extractorProblems(t, "lexemes", "parser", "printer") {
		return
	}
	type litClass struct {
		srcDelim byte
		tokType  int64
		printer  *literalPrinter
	}
	var classes []litClass
	var ds []int
	for d := range t.lt.strDelims {
		ds = append(ds, int(d))
	}
	sort.Ints(ds)
	for _, d := range ds {
		tt := t.lt.strDelims[byte(d)]
		lp, why := literalPrinterFor(c, t, tt)
		if lp == nil {
			c.unres(fmt.Sprintf("printer for %s", t.tc.name(tt)), token.NoPos, "%s", why)
			continue
		}
		if lp.delim == 0 {
			c.unres(fmt.Sprintf("printer of %s", lp.node), lp.pos, "the printer does not wrap the value in a constant delimiter pair")
			continue
		}
		classes = append(classes, litClass{byte(d), tt, lp})
		c.ok(fmt.Sprintf("source delimiter %q -> %s -> %s printed between %q", string(rune(d)), t.tc.name(tt), lp.node, string(rune(lp.delim))), lp.pos, "printer escapes: %s", lp.neutral)
	}

	c.rule("R7.1", "delimiter safety of every byte sink of the string/backtick scanners, per source delimiter")
	c.floor(12)
	seenShared := map[string]bool{}
	for _, cl := range classes {
		// the scanner contexts entered with this source delimiter as current byte
		for _, key := range lf.order {
			cx := lf.ctxs[key]
			if cx.fn == lf.base || cx.fn == lf.skipper || !cx.entry.live || resultBuilder(cx.fn) == nil {
				continue
			}
			if !cx.entry.cur.has(cl.srcDelim) || cx.entry.cur.count() != 1 {
				continue
			}
			D := cl.printer.delim
			if buf := resultBuilder(cx.fn); buf != nil && !seenShared["uses:"+cx.fn.Name()] {
				seenShared["uses:"+cx.fn.Name()] = true
				n := 0
				for _, r := range *buf.Referrers() {
					okUse := false
					switch x := r.(type) {
					case *ssa.DebugRef:
						okUse = true
					case *ssa.Call:
						if cal := x.Call.StaticCallee(); cal != nil && pkgPathOf(cal) == "strings" && len(x.Call.Args) >= 1 && x.Call.Args[0] == ssa.Value(buf) {
							switch cal.Name() {
							case "WriteByte", "WriteRune", "WriteString", "Write", "String", "Len", "Grow", "Cap":
								okUse = true
							}
						}
					}
					if !okUse {
						n++
						c.unres(fmt.Sprintf("%s: result buffer used outside the analysed sinks #%d", cx.fn.Name(), n), r.Pos(), "the scanner's buffer is used by %s: bytes could reach the literal without passing a checked sink", r.String())
					}
				}
			}
			// pairing of sinks within one round of the scanner's loop, path by path (scanpaths.go); the block-local
			// reading of collectSinks is kept when the walk is cut short
			var pathFacts map[*ssa.Call]*sinkPathFacts
			if paths, ok := scannerIterPaths(lf, cx); ok && len(paths) > 0 {
				pathFacts = sinkFactsFromPaths(paths)
			}
			if os.Getenv("XJSCHECK_ROUNDS") != "" {
				paths, ok := scannerIterPaths(lf, cx)
				fmt.Fprintf(os.Stderr, "== %s entry %s complete=%v paths=%d\n", cx.fn.Name(), cx.entry.cur, ok, len(paths))
				for _, p := range paths {
					line := ""
					for _, e := range p.events {
						switch {
						case e.adv && e.start:
							line += " start=" + e.after.String()
						case e.adv && e.unknown:
							line += " ADV?"
						case e.adv:
							line += " adv->" + e.after.String()
						default:
							line += fmt.Sprintf(" W[%s %s bsl=%v paired=%v]", e.sink.class, e.sink.set, e.sink.isBsl, e.sink.paired)
						}
					}
					fmt.Fprintf(os.Stderr, "   exit=%v:%s\n", p.exits, line)
				}
			}
			for _, si := range collectSinks(lf, cx) {
				if sf := pathFacts[si.call]; sf != nil && sf.paths > 0 {
					si.paired = sf.pairedAll
					si.hasNext = sf.hasNextAll
					if sf.anyUnpaired {
						si.set = sf.setUnpaired
					}
				}
				esc := si.escape
				if esc == "" {
					esc = "raw"
				}
				// computed sinks do not depend on the source delimiter: report once
				ctxLabel := fmt.Sprintf("[%s…%s]", string(rune(cl.srcDelim)), string(rune(cl.srcDelim)))
				key := fmt.Sprintf("%s %s: %s sink #%d after %q", cx.fn.Name(), ctxLabel, si.class, si.ord, esc)
				if si.class != "verbatim" || esc != "raw" {
					key = fmt.Sprintf("%s: %s sink #%d after %q", cx.fn.Name(), si.class, si.ord, esc)
					if seenShared[key+fmt.Sprint(D)] {
						continue
					}
					seenShared[key+fmt.Sprint(D)] = true
				}
				danger := setOf(D).minus(cl.printer.neutral)
				// string(b) of a byte is the UTF-8 encoding of the code point U+00bb, not the byte: for b >= 0x80 two bytes
				if cv, ok := si.call.Call.Args[1].(*ssa.Convert); ok {
					if db, ok := cv.Type().Underlying().(*types.Basic); ok && db.Info()&types.IsString != 0 {
						if sb, ok := cv.X.Type().Underlying().(*types.Basic); ok && sb.Info()&types.IsInteger != 0 {
							hi := bset{}
							for b := 0x80; b < 0x100; b++ {
								if si.set.has(byte(b)) {
									hi.add(byte(b))
								}
							}
							k2 := fmt.Sprintf("%s: %s sink #%d after %q writes bytes, not code points", cx.fn.Name(), si.class, si.ord, esc)
							if !seenShared[k2] {
								seenShared[k2] = true
								c.check(hi.empty(), k2, si.call.Pos(), "no byte >= 0x80 reaches the conversion", "the byte is written through string(b): for a byte >= 0x80 (any non-ASCII character of the source) that is the two-byte UTF-8 encoding of U+0080–U+00FF, not the byte — every non-ASCII character of the literal is corrupted")
							}
						}
					}
				}
				switch {
				case si.class == "const" && si.multi:
					bad := si.set.inter(danger.union(setOf('\n', '\r')))
					switch {
					case !bad.empty():
						c.bad(key, si.call.Pos(), "writes %s unescaped into a literal that is printed between %q: the emitted literal ends early or is invalid", bad, string(rune(D)))
					case si.isBsl && !si.hasNext:
						c.bad(key, si.call.Pos(), "the constant text ends in a lone backslash: it escapes whatever follows (possibly the closing delimiter)")
					default:
						c.ok(key, si.call.Pos(), "constant text; bytes outside its backslash pairs: %s", si.set)
					}
				case si.paired:
					c.ok(key, si.call.Pos(), "second byte of a preserved escape pair (a backslash was written immediately before): %s", si.set)
				case si.class == "const" && si.isBsl:
					c.check(si.hasNext, key, si.call.Pos(), "backslash followed by its pair", "a lone backslash is written: it escapes whatever follows (possibly the closing delimiter)")
				case si.class == "const":
					bad := si.set.inter(danger.union(setOf('\n', '\r')))
					c.check(bad.empty(), key, si.call.Pos(), fmt.Sprintf("constant %s", si.set), fmt.Sprintf("writes %s unescaped into a literal that is printed between %q: the emitted literal ends early or is invalid", bad, string(rune(D))))
				case si.class == "verbatim" && si.direct && si.first && strings.HasPrefix(esc, "\\") && si.set != setOf('\\') && !si.set.sub(cl.printer.neutral):
					c.bad(key, si.call.Pos(), "the byte after a backslash (%s) is written WITHOUT the backslash: the escape sequence loses its meaning (\\n becomes n, a line continuation becomes a raw line break)", si.set)
				case si.class == "verbatim":
					bad := si.set.inter(danger)
					c.check(bad.empty(), key, si.call.Pos(), fmt.Sprintf("source byte %s, never the output delimiter", si.set), fmt.Sprintf("copies a source byte that can be %s into a literal printed between %q (the source used %q as delimiter): the emitted literal ends early", bad, string(rune(D)), string(rune(cl.srcDelim))))
				default:
					bad := si.set.inter(danger.union(setOf('\\', '\n', '\r')))
					c.check(bad.empty(), key, si.call.Pos(), fmt.Sprintf("computed byte %s", si.set), fmt.Sprintf("writes a DECODED byte (%s) raw into a literal printed between %q: an escape that denotes the delimiter, a backslash or a line terminator changes or breaks the emitted literal", describeDanger(bad, D), string(rune(D))))
				}
			}
		}
	}

	c.rule("R7.3", "number literals are emitted verbatim: printer writes Token.Literal, parser stores the current token")
	c.floor(4)
	for tt := range t.lt.numTypes {
		lp, why := literalPrinterFor(c, t, tt)
		key := "number token " + t.tc.name(tt)
		if lp == nil {
			c.unres(key, token.NoPos, "%s", why)
			continue
		}
		c.check(lp.verbatimOf == "Token.Literal" && lp.delim == 0, key+": printer writes Token.Literal", lp.pos, lp.node+" writes its token's literal, nothing else", "the number printer does not write exactly Token.Literal")
		// the parser stores the current token in the node's Token field
		m := t.pt.prefix[tt]
		f := c.Prog.FuncValue(m)
		a := c.parserAnchors()
		stored := false
		for _, al := range allocsOf(f, "ast", lp.node) {
			if st := storeToNodeField(f, al, "Token"); st != nil {
				if _, ok := isFieldLoad(st.Val, a.cur); ok {
					stored = true
				}
			}
		}
		c.check(stored, key+": parser keeps the token", f.Pos(), "Token = the current token, unchanged", "the parse method does not store the current token unchanged")
	}
	_ = la

	c.rule("R7.4", "integer/float parse methods branch on strconv's error and return nil on the error edge")
	c.floor(2)
	for tt := range t.lt.numTypes {
		m := t.pt.prefix[tt]
		if m == nil {
			continue
		}
		f := c.Prog.FuncValue(m)
		key := "validation of " + t.tc.name(tt) + " (" + m.Name() + ")"
		var errVal *ssa.Extract
		allInstrs(f, func(_ *ssa.BasicBlock, _ int, in ssa.Instruction) {
			if ex, ok := in.(*ssa.Extract); ok {
				if call, ok := ex.Tuple.(*ssa.Call); ok && call.Call.StaticCallee() != nil && pkgPathOf(call.Call.StaticCallee()) == "strconv" && ex.Index == 1 {
					errVal = ex
				}
			}
		})
		if errVal == nil {
			c.bad(key, f.Pos(), "the literal is not validated with strconv (or its error is dropped): an over-long or malformed number is accepted as written")
			continue
		}
		gate := false
		for _, b := range f.Blocks {
			iff := blockIf(b)
			if iff == nil {
				continue
			}
			bo, ok := iff.Cond.(*ssa.BinOp)
			if !ok || bo.X != ssa.Value(errVal) || !isNilConst(bo.Y) {
				continue
			}
			errEdge := 0
			if bo.Op == token.EQL {
				errEdge = 1
			}
			// every return reachable only through the error edge yields nil
			okRet, any := true, false
			for blk := range edgeRegion(f, b, errEdge) {
				if r, ok := blk.Instrs[len(blk.Instrs)-1].(*ssa.Return); ok {
					any = true
					if !isNilConst(r.Results[0]) {
						okRet = false
					}
				}
			}
			gate = any && okRet
		}
		if !gate {
			// the comparison with nil is kept in a bool (`ok = err == nil`) that is branched on later: on the error path
			// the bool has the comparison's value, so the edge taken for that value must lead to nil results only
			allInstrs(f, func(_ *ssa.BasicBlock, _ int, in ssa.Instruction) {
				bo, ok := in.(*ssa.BinOp)
				if !ok || bo.X != ssa.Value(errVal) || !isNilConst(bo.Y) || (bo.Op != token.EQL && bo.Op != token.NEQ) || bo.Referrers() == nil {
					return
				}
				onErr := bo.Op == token.NEQ // the value of the comparison when there is an error
				for _, r := range *bo.Referrers() {
					phi, ok := r.(*ssa.Phi)
					if !ok || phi.Referrers() == nil {
						continue
					}
					for _, r2 := range *phi.Referrers() {
						var iff *ssa.If
						val := onErr
						switch x := r2.(type) {
						case *ssa.If:
							iff = x
						case *ssa.UnOp:
							if x.Op == token.NOT && x.Referrers() != nil {
								for _, r3 := range *x.Referrers() {
									if i3, ok := r3.(*ssa.If); ok {
										iff, val = i3, !onErr
									}
								}
							}
						}
						if iff == nil {
							continue
						}
						edge := 1
						if val {
							edge = 0
						}
						okRet, any := true, false
						for blk := range edgeRegion(f, iff.Block(), edge) {
							if r, ok := blk.Instrs[len(blk.Instrs)-1].(*ssa.Return); ok {
								any = true
								if !isNilConst(r.Results[0]) {
									okRet = false
								}
							}
						}
						if any && okRet {
							gate = true
						}
					}
				}
			})
		}
		c.check(gate, key, errVal.Pos(), "err != nil leads to a nil result (with an error, R11.2)", "the strconv error does not lead to a nil result")
	}

	c.rule("R7.5", "the code-point encoder used for \\u escapes has RFC 3629's range boundaries, lengths, lead/continuation markers, shifts and masks (constants and shape, not arithmetic over sample values)")
	c.floor(1)
	ruleUTF8Encoder(c, lf)

	c.rule("R7.9", "the digit-value function of the escape decoders maps each hexadecimal digit to its value, and the digit test that guards it accepts exactly the hexadecimal digits (both folded per byte)")
	c.floor(1)
	ruleHexDigits(c)

	c.rule("R7.6", "escape pairing: in every delimited scanner a backslash takes the following byte with it (that byte is never re-examined as a backslash or as the delimiter)")
	c.floor(2)
	ruleEscapePairing(c, lf)

	c.rule("R7.7", "escape decoding keeps no state between characters: the scanners' main loops have no loop-carried values (only the cursor fields and the result buffer persist)")
	c.floor(2)
	ruleScannerMemoryless(c, lf)

	c.rule("R7.8", "byte conservation per round of a delimited scanner whose rounds could all be walked: what a round consumes it writes — except a backslash dropped in front of a byte the printer escapes again, or a backslash added in front of a copied byte")
	c.floor(1)
	nwalked := 0
	for _, cl := range classes {
		for _, key := range lf.order {
			cx := lf.ctxs[key]
			if cx.fn == lf.base || cx.fn == lf.skipper || !cx.entry.live || resultBuilder(cx.fn) == nil {
				continue
			}
			if !cx.entry.cur.has(cl.srcDelim) || cx.entry.cur.count() != 1 {
				continue
			}
			paths, complete := scannerIterPaths(lf, cx)
			k := fmt.Sprintf("%s [%s…%s]: rounds", cx.fn.Name(), string(rune(cl.srcDelim)), string(rune(cl.srcDelim)))
			if !complete || len(paths) == 0 {
				c.info(k+" not walked", cx.fn.Pos(), "the rounds of this scanner contain inner loops or too many paths: conservation is not decided for it (its sinks are judged one by one by R7.1)")
				continue
			}
			nwalked++
			nbad := 0
			nrounds := 0
			for _, p := range paths {
				if p.exits {
					continue
				}
				consumed, written, added, dropped := 0, 0, 0, 0
				skip := false
				var sinks []*sinkInfo
				var advs []bset
				for _, e := range p.events {
					switch {
					case e.adv && e.unknown:
						skip = true
					case e.adv && e.start:
						advs = append(advs, e.after)
					case e.adv:
						consumed++
						advs = append(advs, e.after)
					default:
						sinks = append(sinks, e.sink)
					}
				}
				for i, si := range sinks {
					switch {
					case si.class == "computed" || isByteSlice(si.call.Call.Args[1].Type()):
						skip = true
					case si.multi:
						written += constTextLen(si.call.Call.Args[1])
					default:
						written++
					}
					if si.class == "const" && si.isBsl && !si.multi && i+1 < len(sinks) {
						added++ // an escaping backslash put in front of the next byte
					}
				}
				if skip {
					continue
				}
				for i := 0; i+1 < len(advs); i++ {
					if advs[i] == setOf('\\') && !advs[i+1].empty() && advs[i+1].sub(cl.printer.neutral) {
						dropped++ // the printer writes this backslash again in front of the byte it escapes
					}
				}
				nrounds++
				if written-added != consumed-dropped {
					nbad++
					var seq []string
					for _, a := range advs {
						seq = append(seq, a.String())
					}
					c.bad(fmt.Sprintf("%s: round #%d", k, nbad), cx.fn.Pos(), "a round that consumes %d byte(s) (%s) writes %d (added escapes: %d, backslashes the printer restores: %d): a byte of the literal is lost or invented, so the emitted literal denotes another string", consumed, strings.Join(seq, " "), written, added, dropped)
				}
			}
			if nbad == 0 {
				c.ok(k, cx.fn.Pos(), "%d rounds walked: each writes what it consumes (modulo a backslash the printer restores / an added escape)", nrounds)
			}
		}
	}
	if nwalked == 0 {
		c.unres("rounds", token.NoPos, "no delimited scanner could be walked round by round")
	}
}

func describeDanger(bad bset, D byte) string {
	var parts []string
	if bad.has(D) {
		parts = append(parts, fmt.Sprintf("the delimiter %q", string(rune(D))))
	}
	if bad.has('\\') {
		parts = append(parts, "a backslash")
	}
	if bad.has('\n') || bad.has('\r') {
		parts = append(parts, "a line terminator")
	}
	return strings.Join(parts, ", ")
}

var _ = types.Typ

// ---- R7.5: the UTF-8 encoder's ranges and bit constants against RFC 3629 ------------------------------------------

type utf8Row struct {
	lo, hi int64
	n      int
	lead   int64
}

// RFC 3629 §3: the four forms, their code point ranges and lead-byte markers; continuation bytes are 10xxxxxx.
var utf8Spec = []utf8Row{{0x0, 0x7F, 1, 0x00}, {0x80, 0x7FF, 2, 0xC0}, {0x800, 0xFFFF, 3, 0xE0}, {0x10000, 0x10FFFF, 4, 0xF0}}

func ruleUTF8Encoder(c *Ctx, lf *lexFacts) {
	c.buildSSA()
	// the encoder: a function of package lexer func(int) []byte
	var enc *ssa.Function
	for _, f := range c.libFunctions("lexer") {
		if f.Signature.Recv() != nil || len(f.Params) != 1 || f.Signature.Results().Len() != 1 || f.Parent() != nil {
			continue
		}
		if b, ok := f.Params[0].Type().Underlying().(*types.Basic); !ok || b.Info()&types.IsInteger == 0 {
			continue
		}
		if isByteSlice(f.Signature.Results().At(0).Type()) {
			enc = f
		}
	}
	if enc == nil {
		// the standard library's encoder is the accepted alternative
		uses := false
		for _, f := range c.libFunctions("lexer") {
			allInstrs(f, func(_ *ssa.BasicBlock, _ int, in ssa.Instruction) {
				if call, ok := in.(*ssa.Call); ok {
					if cal := call.Call.StaticCallee(); cal != nil && pkgPathOf(cal) == "unicode/utf8" {
						uses = true
					}
				}
			})
		}
		if uses {
			c.ok("UTF-8 encoder", token.NoPos, "the lexer encodes code points with unicode/utf8")
		} else {
			c.unres("UTF-8 encoder", token.NoPos, "no func(int) []byte in package lexer and no use of unicode/utf8: the code-point encoder was not found")
		}
		return
	}
	par := enc.Params[0]
	const inf = int64(1) << 40
	type ret struct {
		lo, hi int64
		elems  []ssa.Value
		pos    token.Pos
	}
	var rets []ret
	unresolved := ""
	var walk func(b *ssa.BasicBlock, lo, hi int64, depth int)
	walk = func(b *ssa.BasicBlock, lo, hi int64, depth int) {
		if lo > hi || depth > 40 {
			return
		}
		last := b.Instrs[len(b.Instrs)-1]
		switch x := last.(type) {
		case *ssa.Return:
			el, ok := sliceLitElems(x.Results[0])
			if !ok {
				unresolved = "a return value is not a byte slice literal"
				return
			}
			rets = append(rets, ret{lo, hi, el, x.Pos()})
		case *ssa.If:
			bo, ok := x.Cond.(*ssa.BinOp)
			if !ok {
				unresolved = "branch on something other than a comparison of the code point with a constant"
				return
			}
			op := bo.Op
			var k int64
			if bo.X == ssa.Value(par) {
				kk, ok := constInt64(bo.Y)
				if !ok {
					unresolved = "comparison with a non-constant"
					return
				}
				k = kk
			} else if bo.Y == ssa.Value(par) {
				kk, ok := constInt64(bo.X)
				if !ok {
					unresolved = "comparison with a non-constant"
					return
				}
				k = kk
				switch op { // k op cp  ==  cp op' k
				case token.LSS:
					op = token.GTR
				case token.LEQ:
					op = token.GEQ
				case token.GTR:
					op = token.LSS
				case token.GEQ:
					op = token.LEQ
				}
			} else {
				unresolved = "branch on something other than the code point"
				return
			}
			var tlo, thi, flo, fhi int64
			switch op {
			case token.LEQ:
				tlo, thi, flo, fhi = lo, min64(hi, k), max64(lo, k+1), hi
			case token.LSS:
				tlo, thi, flo, fhi = lo, min64(hi, k-1), max64(lo, k), hi
			case token.GEQ:
				tlo, thi, flo, fhi = max64(lo, k), hi, lo, min64(hi, k-1)
			case token.GTR:
				tlo, thi, flo, fhi = max64(lo, k+1), hi, lo, min64(hi, k)
			default:
				unresolved = "comparison operator " + op.String()
				return
			}
			walk(b.Succs[0], tlo, thi, depth+1)
			walk(b.Succs[1], flo, fhi, depth+1)
		default:
			for _, s := range b.Succs {
				walk(s, lo, hi, depth+1)
			}
		}
	}
	walk(enc.Blocks[0], 0, inf, 0)
	if unresolved != "" {
		c.unres(enc.Name()+": ranges", enc.Pos(), "%s (accepted: an if-chain comparing the code point with constants, each arm returning a byte slice literal; or unicode/utf8)", unresolved)
		return
	}
	// every spec row is covered exactly by returns of the right length
	for _, row := range utf8Spec {
		key := fmt.Sprintf("%s: U+%04X..U+%04X -> %d byte(s)", enc.Name(), row.lo, row.hi, row.n)
		covered := int64(0)
		var problems []string
		var pos token.Pos
		for _, r := range rets {
			lo, hi := max64(r.lo, row.lo), min64(r.hi, row.hi)
			if lo > hi {
				continue
			}
			covered += hi - lo + 1
			pos = r.pos
			if len(r.elems) != row.n {
				problems = append(problems, fmt.Sprintf("code points U+%04X..U+%04X are encoded in %d byte(s)", lo, hi, len(r.elems)))
				continue
			}
			for i, e := range r.elems {
				orC, sh, mask, ok := utf8ByteShape(e, par)
				wantOr, wantSh := int64(0x80), int64(6*(row.n-1-i))
				if i == 0 {
					wantOr = row.lead
				}
				switch {
				case !ok:
					problems = append(problems, fmt.Sprintf("byte %d is not of the form marker | byte((cp >> s) & mask)", i+1))
				case orC != wantOr:
					problems = append(problems, fmt.Sprintf("byte %d carries marker 0x%X, RFC 3629 requires 0x%X", i+1, orC, wantOr))
				case sh != wantSh:
					problems = append(problems, fmt.Sprintf("byte %d takes the code point shifted by %d, must be %d", i+1, sh, wantSh))
				case i > 0 && mask != 0x3F:
					problems = append(problems, fmt.Sprintf("continuation byte %d is masked with 0x%X, must be 0x3F", i+1, mask))
				case i == 0 && mask != 0 && (row.hi>>uint(wantSh))&^mask != 0:
					problems = append(problems, fmt.Sprintf("the lead byte's mask 0x%X cuts payload bits", mask))
				}
			}
		}
		if covered != row.hi-row.lo+1 {
			problems = append(problems, fmt.Sprintf("only %d of %d code points of this range reach a return", covered, row.hi-row.lo+1))
		}
		if len(problems) > 0 {
			c.bad(key, pos, "%s: the emitted bytes are not the UTF-8 encoding of the escape's code point", strings.Join(dedupSorted(problems), "; "))
		} else {
			c.ok(key, pos, "range boundaries, length, lead marker 0x%X, continuation marker 0x80, shifts and 6-bit masks as in RFC 3629", row.lead)
		}
	}
}

func min64(a, b int64) int64 {
	if a < b {
		return a
	}
	return b
}
func max64(a, b int64) int64 {
	if a > b {
		return a
	}
	return b
}

// utf8ByteShape matches  [marker |] byte( (cp [>> shift]) [& mask] )  in any association the compiler keeps.
func utf8ByteShape(v ssa.Value, cp *ssa.Parameter) (orC, shift, mask int64, ok bool) {
	if bo, isBo := v.(*ssa.BinOp); isBo && bo.Op == token.OR {
		if k, isK := constInt64(bo.X); isK {
			orC, v = k, bo.Y
		} else if k, isK := constInt64(bo.Y); isK {
			orC, v = k, bo.X
		} else {
			return 0, 0, 0, false
		}
	}
	for {
		if cv, isC := v.(*ssa.Convert); isC {
			v = cv.X
			continue
		}
		break
	}
	if bo, isBo := v.(*ssa.BinOp); isBo && bo.Op == token.AND {
		if k, isK := constInt64(bo.Y); isK {
			mask, v = k, bo.X
		} else if k, isK := constInt64(bo.X); isK {
			mask, v = k, bo.Y
		} else {
			return 0, 0, 0, false
		}
	}
	if bo, isBo := v.(*ssa.BinOp); isBo && bo.Op == token.SHR {
		k, isK := constInt64(bo.Y)
		if !isK {
			return 0, 0, 0, false
		}
		shift, v = k, bo.X
	}
	for {
		if cv, isC := v.(*ssa.Convert); isC {
			v = cv.X
			continue
		}
		break
	}
	return orC, shift, mask, v == ssa.Value(cp)
}

// ---- R7.6: escape pairing ------------------------------------------------------------------------------------------
//
// In JavaScript a backslash inside a string or template always takes the following character with it. A scanner that
// sees a backslash must therefore consume the next byte together with it; if it only steps over the backslash, the
// next byte is examined afresh — and when that byte is itself a backslash (or the delimiter) it is misread as the
// start of a new escape (or as the end of the literal). For every delimited scanner the paths from "current byte is a
// backslash" back to the escape test are walked with the byte-set states; a path with a single advance arrives with
// the byte that followed the backslash as current byte: that set must contain neither '\\' nor the delimiter.
func ruleEscapePairing(c *Ctx, lf *lexFacts) {
	bsl := setOf('\\')
	n := 0
	for _, key := range lf.order {
		cx := lf.ctxs[key]
		if cx.fn == lf.base || cx.fn == lf.skipper || cx.entry == nil || !cx.entry.live || resultBuilder(cx.fn) == nil || cx.in == nil {
			continue
		}
		d, single := cx.entry.cur.single()
		if !single {
			continue
		}
		f := cx.fn
		saved := cx.before
		cx.before = map[ssa.Instruction]*lexState{}
		type entryEdge struct {
			from *ssa.BasicBlock
			succ *ssa.BasicBlock
			st   *lexState
		}
		testBlocks := map[*ssa.BasicBlock]bool{}
		var entries []entryEdge
		for _, b := range f.Blocks {
			iff := blockIf(b)
			in := cx.in[b]
			if iff == nil || in == nil || !in.live {
				continue
			}
			st := in.clone()
			for _, ins := range b.Instrs {
				lf.transfer(cx, st, ins)
			}
			for i, succ := range b.Succs {
				es := st.clone()
				if !lf.refine(es, cx, iff.Cond, i == 0) {
					continue
				}
				if es.cur == bsl && st.cur != bsl {
					testBlocks[b] = true
					entries = append(entries, entryEdge{b, succ, es})
				}
			}
		}
		var bad bset
		arrived := 0
		var target *ssa.BasicBlock
		var explore func(b *ssa.BasicBlock, s *lexState, adv int, visits map[*ssa.BasicBlock]int)
		explore = func(b *ssa.BasicBlock, s *lexState, adv int, visits map[*ssa.BasicBlock]int) {
			if visits[b] >= 2 {
				return
			}
			visits[b]++
			defer func() { visits[b]-- }()
			for _, ins := range b.Instrs {
				if call, ok := ins.(*ssa.Call); ok {
					switch cal := call.Call.StaticCallee(); {
					case cal == lf.advance:
						adv++
					case cal != nil && cal != lf.peekFn && lf.mayAdvance(cal):
						adv += 2
					}
				}
				// the escape test itself: the byte examined here is the current byte on arrival
				if _, isIf := ins.(*ssa.If); isIf && b == target && adv >= 1 {
					arrived++
					if adv == 1 {
						bad = bad.union(s.cur.inter(setOf('\\', d)))
					}
					return
				}
				lf.transfer(cx, s, ins)
				if !s.live {
					return
				}
			}
			switch x := b.Instrs[len(b.Instrs)-1].(type) {
			case *ssa.If:
				for i, succ := range b.Succs {
					es := s.clone()
					if lf.refine(es, cx, x.Cond, i == 0) {
						explore(succ, es, adv, visits)
					}
				}
			case *ssa.Return:
			default:
				for _, succ := range b.Succs {
					explore(succ, s.clone(), adv, visits)
				}
			}
		}
		for _, e := range entries {
			// the byte after THIS backslash is the current byte when the same test is reached again after one advance
			target = e.from
			explore(e.succ, e.st.clone(), 0, map[*ssa.BasicBlock]int{})
		}
		cx.before = saved
		if len(entries) == 0 {
			continue
		}
		n++
		k := fmt.Sprintf("%s [%s…]: a backslash takes the next byte with it", f.Name(), string(rune(d)))
		switch {
		case arrived == 0:
			c.unres(k, f.Pos(), "no path from the escape test back to it was found")
		case !bad.empty():
			c.bad(k, f.Pos(), "after a backslash the scanner can step to the next byte without consuming it as part of the escape, and examine it afresh when it is %s: an escaped backslash followed by the closing delimiter is read as an escaped delimiter (the literal does not end where JavaScript ends it), or an escaped delimiter ends the literal", bad)
		default:
			c.ok(k, f.Pos(), "every path from the escape test back to it either consumes the following byte or arrives at a byte that is neither a backslash nor the delimiter")
		}
	}
	if n == 0 {
		c.unres("escape pairing", token.NoPos, "no delimited scanner with an escape test found")
	}
}

// ---- R7.7: escape decoding keeps no state between characters ---------------------------------------------------------
//
// Each escape is decoded from the bytes of that escape alone. In SSA this is visible as the absence of loop-carried
// values in the scanner's outermost loop: the only things that live from one iteration to the next are the lexer's
// cursor (fields) and the result buffer (an allocation). A phi at that loop's header is state surviving from one
// character of the literal to the next — e.g. a digit accumulator hoisted out of the escape branch and never reset.
func ruleScannerMemoryless(c *Ctx, lf *lexFacts) {
	seen := map[*ssa.Function]bool{}
	n := 0
	for _, key := range lf.order {
		cx := lf.ctxs[key]
		f := cx.fn
		if seen[f] || f == lf.base || f == lf.skipper || cx.entry == nil || !cx.entry.live || resultBuilder(f) == nil {
			continue
		}
		seen[f] = true
		// loop headers: blocks with a predecessor they dominate
		var headers []*ssa.BasicBlock
		for _, b := range f.Blocks {
			for _, p := range b.Preds {
				if b.Dominates(p) {
					headers = append(headers, b)
					break
				}
			}
		}
		var outer *ssa.BasicBlock
		for _, h := range headers {
			all := true
			for _, o := range headers {
				if o != h && !h.Dominates(o) {
					all = false
				}
			}
			if all {
				outer = h
			}
		}
		if outer == nil {
			continue
		}
		n++
		key := fmt.Sprintf("%s: no state carried from one character of the literal to the next", f.Name())
		var carried []string
		for _, in := range outer.Instrs {
			phi, ok := in.(*ssa.Phi)
			if !ok {
				break
			}
			if !allSame(phi.Edges) {
				nm := phi.Comment
				if nm == "" {
					nm = phi.Name()
				}
				carried = append(carried, fmt.Sprintf("%s (%s)", nm, phi.Type()))
			}
		}
		sort.Strings(carried)
		c.check(len(carried) == 0, key, outer.Instrs[0].Pos(), "the scanner's main loop has no loop-carried value: only the cursor fields and the result buffer persist", fmt.Sprintf("the scanner's main loop carries %s from one iteration to the next: an escape is decoded with what an earlier escape left behind (two \\u{…} escapes in one string: the second inherits the first one's digits)", strings.Join(carried, ", ")))
	}
	if n == 0 {
		c.unres("scanner loops", token.NoPos, "no delimited scanner with a loop found")
	}
}

func constTextLen(v ssa.Value) int {
	k, ok := unwrap(v).(*ssa.Const)
	if !ok || k.Value == nil || k.Value.Kind() != constant.String {
		return 0
	}
	return len(constant.StringVal(k.Value))
}

// classifySink: what one write into the scanner's result buffer can put there, in lexer state st.
func classifySink(lf *lexFacts, cx *lexCtx, st *lexState, call *ssa.Call, prevLoneBsl bool) sinkInfo {
	arg := call.Call.Args[1]
	si := sinkInfo{call: call}
	switch {
	case isConstByteLike(arg) && constTextLen(arg) > 1:
		// constant text: walk it as the consumer of the literal will, pairing each backslash with its successor
		si.class, si.multi = "const", true
		str := constant.StringVal(unwrap(arg).(*ssa.Const).Value)
		i := 0
		if prevLoneBsl {
			i = 1 // first byte completes the pair opened by the previous sink
		}
		for i < len(str) {
			if str[i] == '\\' {
				if i+1 < len(str) {
					i += 2
					continue
				}
				si.isBsl = true
				break
			}
			si.set.add(str[i])
			i++
		}
	case isConstByteLike(arg):
		si.class = "const"
		si.set = constBytes(arg)
		si.isBsl = endsInLoneBackslash(arg)
		// a constant backslash written while the cursor stands on a backslash (in a branch that tested for it) is a copy
		// of the source byte, spelled as a constant — not an escape the scanner adds
		if cb, single := st.cur.single(); single && cb == '\\' && si.set == setOf(cb) {
			si.class, si.direct, si.isBsl = "verbatim", true, false
		}
	case isByteSlice(arg.Type()):
		// Write(p): every byte of p
		si.set = lf.contentSet(st, arg)
		switch arg.(type) {
		case *ssa.Phi:
			si.class = "verbatim"
		case *ssa.Call:
			if _, isAppend := isBuiltinCall(arg, "append"); isAppend {
				si.class = "verbatim"
			} else {
				si.class = "computed"
			}
		default:
			si.class = "computed"
		}
	default:
		si.set = lf.valSet(st, cx, arg)
		if st.alias[unwrap(arg)] == 1 || fromByteSlice(arg) {
			si.class = "verbatim"
			si.direct = st.alias[unwrap(arg)] == 1
		} else {
			si.class = "computed"
		}
	}
	return si
}

// ruleHexDigits (R7.9). The escape decoders accumulate `value*16 + digitValue(b)` (or `value<<4 | …`) under a digit
// test. Both helpers are pure functions of one byte, so they are folded for each of the 256 byte values: the value
// function must give 0–15 for the 22 hexadecimal digits, and every byte predicate that guards an accumulation must
// be true for exactly those 22 bytes. (What the accumulated code point is then encoded to is R7.5.)
func ruleHexDigits(c *Ctx) {
	c.buildSSA()
	hexVal := func(b byte) (int64, bool) {
		switch {
		case b >= '0' && b <= '9':
			return int64(b - '0'), true
		case b >= 'a' && b <= 'f':
			return int64(b-'a') + 10, true
		case b >= 'A' && b <= 'F':
			return int64(b-'A') + 10, true
		}
		return 0, false
	}
	byteToInt := func(f *ssa.Function) bool {
		if f == nil || f.Blocks == nil || len(f.Params) != 1 || f.Signature.Recv() != nil || f.Signature.Results().Len() != 1 || !isByte(f.Params[0].Type()) {
			return false
		}
		b, ok := f.Signature.Results().At(0).Type().Underlying().(*types.Basic)
		return ok && b.Info()&types.IsInteger != 0
	}
	valueFns := map[*ssa.Function]token.Pos{}
	var order []*ssa.Function
	for _, f := range c.libFunctions("lexer") {
		allInstrs(f, func(_ *ssa.BasicBlock, _ int, in ssa.Instruction) {
			bo, ok := in.(*ssa.BinOp)
			if !ok || (bo.Op != token.ADD && bo.Op != token.OR) {
				return
			}
			for _, pair := range [][2]ssa.Value{{bo.X, bo.Y}, {bo.Y, bo.X}} {
				sh, ok := unwrap(pair[0]).(*ssa.BinOp)
				if !ok {
					continue
				}
				k, isK := constInt64(sh.Y)
				if !isK || !((sh.Op == token.MUL && k == 16) || (sh.Op == token.SHL && k == 4)) {
					continue
				}
				call, ok := unwrap(pair[1]).(*ssa.Call)
				if !ok || !byteToInt(call.Call.StaticCallee()) {
					continue
				}
				g := call.Call.StaticCallee()
				if _, seen := valueFns[g]; !seen {
					valueFns[g] = call.Pos()
					order = append(order, g)
				}
			}
		})
	}
	if len(order) == 0 {
		c.unres("digit-value function", token.NoPos, "no accumulation `value*16 + f(byte)` found in package lexer: hexadecimal escapes are decoded in a form this rule does not read")
		return
	}
	for _, g := range order {
		var wrong []string
		folded := true
		for b := 0; b < 256; b++ {
			want, isHex := hexVal(byte(b))
			if !isHex {
				continue
			}
			v, ok := foldFn(g, []constant.Value{constant.MakeInt64(int64(b))})
			if !ok || v == nil {
				folded = false
				break
			}
			got, _ := constant.Int64Val(constant.ToInt(v))
			if got != want {
				wrong = append(wrong, fmt.Sprintf("%q→%d (want %d)", string(rune(b)), got, want))
			}
		}
		key := g.Name() + ": value of every hexadecimal digit"
		switch {
		case !folded:
			c.unres(key, g.Pos(), "the function does not fold per byte (not a pure function of its argument in the forms foldFn reads)")
		case len(wrong) > 0:
			c.bad(key, g.Pos(), "the digit-value function is wrong for %s: every \\x / \\u escape spelled with such a digit decodes to another character", strings.Join(wrong, ", "))
		default:
			c.ok(key, g.Pos(), "0-9, a-f, A-F map to 0..15")
		}
	}
	// the digit tests: pure byte predicates of package lexer that are true for all ten decimal digits and for at
	// least one letter (a hexadecimal digit test by what it computes, whatever it is called)
	for _, f := range c.libFunctions("lexer") {
		if f.Blocks == nil || len(f.Params) != 1 || f.Signature.Recv() != nil || f.Signature.Results().Len() != 1 || !isByte(f.Params[0].Type()) {
			continue
		}
		if b, ok := f.Signature.Results().At(0).Type().Underlying().(*types.Basic); !ok || b.Kind() != types.Bool {
			continue
		}
		var trueSet []byte
		folded := true
		for b := 0; b < 256 && folded; b++ {
			v, ok := foldFn(f, []constant.Value{constant.MakeInt64(int64(b))})
			if !ok || v == nil || v.Kind() != constant.Bool {
				folded = false
				break
			}
			if constant.BoolVal(v) {
				trueSet = append(trueSet, byte(b))
			}
		}
		if !folded {
			continue
		}
		// a hexadecimal digit test by extension: accepts '0'..'9' and 'a' or 'A', and does not accept 'g'..'z' wholesale
		has := func(x byte) bool {
			for _, t := range trueSet {
				if t == x {
					return true
				}
			}
			return false
		}
		if !(has('0') && has('9') && (has('a') || has('A')) && !has('z') && !has('_')) {
			continue
		}
		var extra, missing []string
		for b := 0; b < 256; b++ {
			_, isHex := hexVal(byte(b))
			switch {
			case isHex && !has(byte(b)):
				missing = append(missing, fmt.Sprintf("%q", string(rune(b))))
			case !isHex && has(byte(b)):
				extra = append(extra, fmt.Sprintf("%q", string(rune(b))))
			}
		}
		key := f.Name() + ": true for exactly the hexadecimal digits"
		c.check(len(extra) == 0 && len(missing) == 0, key, f.Pos(), "22 bytes: 0-9, a-f, A-F", fmt.Sprintf("the hexadecimal digit test accepts %v and rejects %v: an escape with such a digit is cut short or swallows a following character", extra, missing))
	}
}
