package main

import (
	"fmt"
	"go/constant"
	"go/token"
	"go/types"
	"sort"

	"golang.org/x/tools/go/ssa"
)

// E2 (semantic form). The lexeme table is read off the dispatcher by walking it once per possible first byte: the
// byte-set state of lexFacts follows the current / look-ahead byte through branches, advances, predicates and
// helper calls; values that decide the token (token-type constants, parameters of helpers, entries of
// package-level tables indexed by the current byte, fields of the token literal) are folded along the way. A path
// ends in a return of a token value; the bytes it advanced over are the token's lexeme. Nothing is executed: each
// step is the abstract transfer function of one SSA instruction, and a path is abandoned (with a recorded problem)
// as soon as something is met that the walk does not understand.

type lexOutcome struct {
	first         byte
	consumed      []bset // the byte sets advanced over, in order
	open          bool   // a scanner with a loop consumed an unknown number of bytes
	scanner       *ssa.Function
	typ           int64
	typOK         bool
	ident         bool      // type = token.LookupIdent(·)
	scanTyp       bool      // type = a result of the scanner
	site          *ssa.Call // the call in the dispatcher that yields the token value
	builder       *ssa.Call // innermost call whose callee builds the token literal
	lit           string    // the token's literal text when it folds to a constant
	litOK         bool
	litScan       bool // the literal is the scanner's result
	startLineAdv  int  // advances on the path when Start.Line was read from the cursor (-1: not a cursor read)
	startColAdv   int
	advBeforeScan int  // advances before the scanner call (-1: no scanner)
	curAtBuild    bset // the current byte when the token literal is built
}

type aval struct {
	k      constant.Value
	fields map[string]*aval // struct value (token literal, table entry)
	tuple  []*aval
	list   []*aval          // a folded slice / array value
	mapv   map[string]*aval // a folded map value (keys as keyString)
	isList bool
	tag    string // "ident", "scan", "scantyp", "line", "column"
	adv    int    // for line/column reads: how many advances had happened on the path
	fn     *ssa.Function
}

type lexWalker struct {
	c        *Ctx
	lf       *lexFacts
	la       *lexAnchors
	problems map[string]bool
	out      []lexOutcome
	steps    int
	first    byte
}

type lexFrame struct {
	fn     *ssa.Function
	cx     *lexCtx
	env    map[ssa.Value]*aval
	allocs map[ssa.Value]*aval
	depth  int
	site   *ssa.Call // the call in the dispatcher this frame (transitively) belongs to
}

type lexPath struct {
	s          *lexState
	consumed   []bset
	open       bool
	scanner    *ssa.Function
	builder    *ssa.Call
	site       *ssa.Call
	advScan    int // number of advances when the scanner was called; -1 without a scanner
	curAtBuild bset
}

func (p *lexPath) clone() *lexPath {
	return &lexPath{s: p.s.clone(), consumed: append([]bset(nil), p.consumed...), open: p.open, scanner: p.scanner, builder: p.builder, site: p.site, advScan: p.advScan, curAtBuild: p.curAtBuild}
}

func (w *lexWalker) problem(format string, args ...any) {
	w.problems[fmt.Sprintf(format, args...)] = true
}

func acyclic(f *ssa.Function) bool {
	if f == nil || f.Blocks == nil {
		return false
	}
	color := map[*ssa.BasicBlock]int{}
	var dfs func(b *ssa.BasicBlock) bool
	dfs = func(b *ssa.BasicBlock) bool {
		color[b] = 1
		for _, s := range b.Succs {
			if color[s] == 1 {
				return false
			}
			if color[s] == 0 && !dfs(s) {
				return false
			}
		}
		color[b] = 2
		return true
	}
	return dfs(f.Blocks[0])
}

// producesLiteralByLoop: a function that returns the token's text (a string) and is itself free of loops only because
// its loops were moved into private helpers that return nothing (`skipDigits()`): it is still the scanner of its
// lexeme, and is summarised like one instead of being entered.
func producesLiteralByLoop(f *ssa.Function) bool {
	if f == nil || f.Blocks == nil || f.Signature.Results().Len() == 0 {
		return false
	}
	if b, ok := f.Signature.Results().At(0).Type().Underlying().(*types.Basic); !ok || b.Info()&types.IsString == 0 {
		return false
	}
	found := false
	allInstrs(f, func(_ *ssa.BasicBlock, _ int, in ssa.Instruction) {
		if call, ok := in.(*ssa.Call); ok {
			g := call.Call.StaticCallee()
			if g != nil && g.Pkg == f.Pkg && g.Blocks != nil && g.Signature.Results().Len() == 0 && !acyclic(g) {
				found = true
			}
		}
	})
	return found
}

func (w *lexWalker) ev(fr *lexFrame, v ssa.Value) *aval {
	if v == nil {
		return nil
	}
	if k, ok := v.(*ssa.Const); ok {
		if k.Value == nil {
			return nil
		}
		return &aval{k: k.Value}
	}
	if fn, ok := v.(*ssa.Function); ok {
		return &aval{fn: fn}
	}
	return fr.env[v]
}

// walkFn explores fn from its entry; done is called for every path that reaches a return, with the value returned.
func (w *lexWalker) walkFn(fr *lexFrame, p *lexPath, done func(p *lexPath, ret []*aval)) {
	w.walkBlock(fr, fr.fn.Blocks[0], nil, p, map[*ssa.BasicBlock]int{}, done)
}

func (w *lexWalker) walkBlock(fr *lexFrame, b, pred *ssa.BasicBlock, p *lexPath, on map[*ssa.BasicBlock]int, done func(p *lexPath, ret []*aval)) {
	// a block may be re-entered (a loop over the rows of a folded table: every iteration is decided by folded values);
	// an open-ended loop exhausts this bound or the step budget and is reported
	if on[b] >= 24 {
		w.problem("%s: a loop is reached on the way to a token and does not end within 24 rounds (block %d)", fnName(fr.fn), b.Index)
		return
	}
	w.steps++
	if w.steps > 400000 {
		w.problem("path budget exhausted")
		return
	}
	on[b]++
	defer func() { on[b]-- }()
	// phis first, all from the pre-state
	if pred != nil {
		edge := -1
		for i, q := range b.Preds {
			if q == pred {
				edge = i
			}
		}
		upd := map[ssa.Value]*aval{}
		for _, in := range b.Instrs {
			phi, ok := in.(*ssa.Phi)
			if !ok {
				break
			}
			if edge >= 0 {
				upd[phi] = w.ev(fr, phi.Edges[edge])
				if isByte(phi.Type()) {
					p.s.vals[phi] = w.lf.valSet(p.s, fr.cx, phi.Edges[edge])
					if a, ok := p.s.alias[unwrap(phi.Edges[edge])]; ok {
						p.s.alias[phi] = a
					} else {
						delete(p.s.alias, phi)
					}
				}
			}
		}
		for k, v := range upd {
			if v == nil {
				delete(fr.env, k)
			} else {
				fr.env[k] = v
			}
		}
	}
	w.walkInstrs(fr, b, 0, p, on, done)
}

func (w *lexWalker) walkInstrs(fr *lexFrame, b *ssa.BasicBlock, from int, p *lexPath, on map[*ssa.BasicBlock]int, done func(p *lexPath, ret []*aval)) {
	lf := w.lf
	for i := from; i < len(b.Instrs); i++ {
		in := b.Instrs[i]
		switch x := in.(type) {
		case *ssa.Phi, *ssa.DebugRef:
			continue
		case *ssa.Alloc:
			fr.allocs[x] = &aval{fields: map[string]*aval{}}
			continue
		case *ssa.Store:
			if fa, ok := x.Addr.(*ssa.FieldAddr); ok {
				if inner, ok := fa.X.(*ssa.FieldAddr); ok {
					// &(&obj.A).B = v
					if obj := fr.allocs[inner.X]; obj != nil {
						sub := obj.fields[fieldOfAddr(inner).Name()]
						if sub == nil || sub.fields == nil {
							sub = &aval{fields: map[string]*aval{}}
						} else {
							sub = sub.copy()
						}
						if v := w.ev(fr, x.Val); v != nil {
							sub.fields[fieldOfAddr(fa).Name()] = v
						} else {
							delete(sub.fields, fieldOfAddr(fa).Name())
						}
						obj.fields[fieldOfAddr(inner).Name()] = sub
						continue
					}
				}
				if obj := fr.allocs[fa.X]; obj != nil {
					if v := w.ev(fr, x.Val); v != nil {
						obj.fields[fieldOfAddr(fa).Name()] = v
					} else {
						delete(obj.fields, fieldOfAddr(fa).Name())
					}
					continue
				}
			}
			if obj := fr.allocs[x.Addr]; obj != nil {
				if v := w.ev(fr, x.Val); v != nil {
					*obj = *v.copy()
				} else {
					*obj = aval{fields: map[string]*aval{}}
				}
				continue
			}
			lf.transfer(fr.cx, p.s, in)
			continue
		case *ssa.UnOp:
			lf.transfer(fr.cx, p.s, in)
			if x.Op == token.MUL {
				if obj := fr.allocs[x.X]; obj != nil {
					fr.env[x] = obj.copy()
					continue
				}
				if fa, ok := x.X.(*ssa.FieldAddr); ok {
					if obj := fr.allocs[fa.X]; obj != nil {
						if v := obj.fields[fieldOfAddr(fa).Name()]; v != nil {
							fr.env[x] = v
						}
						continue
					}
					if fieldOfAddr(fa) == lf.curFld {
						if cb, single := p.s.cur.single(); single {
							fr.env[x] = &aval{k: constant.MakeInt64(int64(cb))}
						}
						continue
					}
					if w.la != nil && namedIs(fa.X.Type(), "lexer", "Lexer") {
						switch fieldOfAddr(fa) {
						case w.la.line:
							fr.env[x] = &aval{tag: "line", adv: len(p.consumed)}
							if p.open {
								fr.env[x].adv = 1 << 20
							}
							continue
						case w.la.col:
							fr.env[x] = &aval{tag: "column", adv: len(p.consumed)}
							if p.open {
								fr.env[x].adv = 1 << 20
							}
							continue
						}
					}
				}
				if ia, ok := x.X.(*ssa.IndexAddr); ok {
					if lv := w.ev(fr, ia.X); lv != nil && lv.isList {
						if iv := w.ev(fr, ia.Index); iv != nil && iv.k != nil {
							if n, ok := constant.Int64Val(constant.ToInt(iv.k)); ok && n >= 0 && n < int64(len(lv.list)) && lv.list[n] != nil {
								fr.env[x] = lv.list[n]
							}
						}
						continue
					}
					if seq := globalSeqTable(ia.X); seq != nil {
						if iv := w.ev(fr, ia.Index); iv != nil && iv.k != nil {
							if n, ok := constant.Int64Val(constant.ToInt(iv.k)); ok && n >= 0 && n < int64(len(seq)) && seq[n] != nil {
								fr.env[x] = &aval{k: seq[n]}
							}
						}
					}
				}
			}
			if x.Op == token.NOT {
				if v := w.ev(fr, x.X); v != nil && v.k != nil && v.k.Kind() == constant.Bool {
					fr.env[x] = &aval{k: constant.MakeBool(!constant.BoolVal(v.k))}
				}
			}
			continue
		case *ssa.Lookup:
			kv := w.ev(fr, x.Index)
			if kv == nil || kv.k == nil {
				continue
			}
			key := kv.k
			if key.Kind() != constant.String {
				key = constant.ToInt(key)
			}
			var val *aval
			found := false
			if tbl := globalMapTable(x.X); tbl != nil {
				if cv, ok := tbl[key.ExactString()]; ok {
					val, found = &aval{k: cv}, true
				} else if mt, ok := x.X.Type().Underlying().(*types.Map); ok {
					val = &aval{k: zeroOf(mt.Elem())}
				}
			} else if stbl := globalStructMapTable(x.X); stbl != nil {
				if flds, ok := stbl[key.ExactString()]; ok {
					val, found = &aval{fields: flds}, true
				} else {
					val = &aval{fields: map[string]*aval{}}
				}
			} else if gv := w.c.globalAval(x.X); gv != nil && gv.fields == nil && gv.tuple == nil && gv.mapv != nil {
				if ev, ok := gv.mapv[keyString(key)]; ok {
					val, found = ev, true
				} else if mt, ok := x.X.Type().Underlying().(*types.Map); ok {
					val = zeroAval(mt.Elem())
				}
			} else {
				continue
			}
			if x.CommaOk {
				fr.env[x] = &aval{tuple: []*aval{val, {k: constant.MakeBool(found)}}}
			} else if val != nil {
				fr.env[x] = val
			}
			continue
		case *ssa.Extract:
			if t := w.ev(fr, x.Tuple); t != nil {
				if t.tuple != nil && x.Index < len(t.tuple) && t.tuple[x.Index] != nil {
					fr.env[x] = t.tuple[x.Index]
				} else if t.tag == "scan" {
					if x.Index == 0 {
						fr.env[x] = &aval{tag: "scanlit", fn: t.fn}
					} else {
						fr.env[x] = &aval{tag: "scantyp", fn: t.fn}
					}
				}
			}
			continue
		case *ssa.Field:
			if sv := w.ev(fr, x.X); sv != nil && sv.fields != nil {
				if fv := sv.fields[fieldOfField(x).Name()]; fv != nil {
					fr.env[x] = fv
				}
			}
			continue
		case *ssa.Convert:
			if v := w.ev(fr, x.X); v != nil && v.k != nil && v.k.Kind() == constant.Int {
				if b, ok := x.Type().Underlying().(*types.Basic); ok && b.Info()&types.IsInteger != 0 {
					fr.env[x] = v
				} else if ok && b.Kind() == types.String {
					// string(byte) of a known byte: one byte for ASCII (a non-ASCII byte converts to two: not folded)
					if n, ok := constant.Int64Val(v.k); ok && n >= 0 && n < 0x80 {
						fr.env[x] = &aval{k: constant.MakeString(string(rune(n)))}
					}
				}
			} else if v != nil && v.tag != "" {
				fr.env[x] = v
			}
			lf.transfer(fr.cx, p.s, in)
			continue
		case *ssa.ChangeType:
			if v := w.ev(fr, x.X); v != nil {
				fr.env[x] = v
			}
			lf.transfer(fr.cx, p.s, in)
			continue
		case *ssa.BinOp:
			a, bb := w.ev(fr, x.X), w.ev(fr, x.Y)
			if a != nil && bb != nil && a.k != nil && bb.k != nil {
				if x.Op == token.ADD && a.k.Kind() == constant.String && bb.k.Kind() == constant.String {
					fr.env[x] = &aval{k: constant.MakeString(constant.StringVal(a.k) + constant.StringVal(bb.k))}
				}
				if (x.Op == token.ADD || x.Op == token.SUB) && a.k.Kind() == constant.Int && bb.k.Kind() == constant.Int {
					fr.env[x] = &aval{k: constant.BinaryOp(a.k, x.Op, bb.k)}
				}
				switch x.Op {
				case token.EQL, token.NEQ, token.LSS, token.LEQ, token.GTR, token.GEQ:
					ak, bk := a.k, bb.k
					if ak.Kind() == constant.Int || bk.Kind() == constant.Int {
						ak, bk = constant.ToInt(ak), constant.ToInt(bk)
					}
					if ak.Kind() == bk.Kind() && ak.Kind() != constant.Unknown {
						fr.env[x] = &aval{k: constant.MakeBool(constant.Compare(ak, x.Op, bk))}
					}
				}
			}
			continue
		case *ssa.Call:
			if w.call(fr, b, i, x, p, on, done) {
				return // the continuation was run inside call (one per callee path)
			}
			continue
		case *ssa.If:
			if cv := w.ev(fr, x.Cond); cv != nil && cv.k != nil && cv.k.Kind() == constant.Bool {
				idx := 1
				if constant.BoolVal(cv.k) {
					idx = 0
				}
				w.walkBlock(fr, b.Succs[idx], b, p, on, done)
				return
			}
			// folded byte values take part in the refinement (peek == <entry of a folded table>)
			if bo, ok := x.Cond.(*ssa.BinOp); ok {
				for _, op := range []ssa.Value{bo.X, bo.Y} {
					if _, isConst := op.(*ssa.Const); isConst || !isByte(op.Type()) {
						continue
					}
					if ov := w.ev(fr, op); ov != nil && ov.k != nil {
						if n, ok := constant.Int64Val(constant.ToInt(ov.k)); ok && n >= 0 && n < 256 {
							p.s.vals[op] = setOf(byte(n))
						}
					}
				}
			}
			for si, succ := range b.Succs {
				q := p.clone()
				if !lf.refine(q.s, fr.cx, x.Cond, si == 0) {
					continue
				}
				fr2 := fr.fork()
				w.walkBlock(fr2, succ, b, q, on, done)
			}
			return
		case *ssa.Jump:
			w.walkBlock(fr, b.Succs[0], b, p, on, done)
			return
		case *ssa.Return:
			var rets []*aval
			for _, r := range x.Results {
				rets = append(rets, w.ev(fr, r))
			}
			done(p, rets)
			return
		case *ssa.Panic:
			return
		default:
			lf.transfer(fr.cx, p.s, in)
		}
	}
}

func (v *aval) copy() *aval {
	if v == nil {
		return nil
	}
	n := &aval{k: v.k, tag: v.tag, fn: v.fn, adv: v.adv}
	if v.fields != nil {
		n.fields = make(map[string]*aval, len(v.fields))
		for k, f := range v.fields {
			n.fields[k] = f
		}
	}
	if v.tuple != nil {
		n.tuple = append([]*aval(nil), v.tuple...)
	}
	n.list, n.isList = v.list, v.isList
	return n
}

// fork: branch-local copies of the folded values (allocated objects are copied so that stores on one branch do not
// show on the other).
func (fr *lexFrame) fork() *lexFrame {
	n := &lexFrame{fn: fr.fn, cx: fr.cx, depth: fr.depth, site: fr.site, env: make(map[ssa.Value]*aval, len(fr.env)), allocs: make(map[ssa.Value]*aval, len(fr.allocs))}
	for k, v := range fr.env {
		n.env[k] = v
	}
	for k, v := range fr.allocs {
		n.allocs[k] = v.copy()
	}
	return n
}

// call handles one call instruction. It returns true when it has taken over the rest of the block (the callee was
// walked path by path and the caller continued after each of them).
func (w *lexWalker) call(fr *lexFrame, b *ssa.BasicBlock, i int, x *ssa.Call, p *lexPath, on map[*ssa.BasicBlock]int, done func(p *lexPath, ret []*aval)) bool {
	lf := w.lf
	site := fr.site
	if fr.depth == 0 {
		site = x
	}
	_ = site
	if bi, isB := x.Call.Value.(*ssa.Builtin); isB || x.Call.IsInvoke() {
		if isB && bi.Name() == "len" && len(x.Call.Args) == 1 {
			if lv := w.ev(fr, x.Call.Args[0]); lv != nil && lv.isList {
				fr.env[x] = &aval{k: constant.MakeInt64(int64(len(lv.list)))}
			}
		}
		lf.transfer(fr.cx, p.s, x)
		return false
	}
	cal := x.Call.StaticCallee()
	switch {
	case cal == nil:
		lf.transfer(fr.cx, p.s, x)
		return false
	case cal == lf.advance:
		p.consumed = append(p.consumed, p.s.cur)
		lf.transfer(fr.cx, p.s, x)
		return false
	case cal == lf.peekFn:
		lf.transfer(fr.cx, p.s, x)
		if pb, single := p.s.peek.single(); single {
			fr.env[x] = &aval{k: constant.MakeInt64(int64(pb))}
		}
		return false
	}
	if ps, isPred := lf.preds[cal]; isPred && len(x.Call.Args) == 1 {
		if a := w.ev(fr, x.Call.Args[0]); a != nil && a.k != nil {
			if n, ok := constant.Int64Val(constant.ToInt(a.k)); ok && n >= 0 && n < 256 {
				fr.env[x] = &aval{k: constant.MakeBool(ps.has(byte(n)))}
			}
		}
		lf.transfer(fr.cx, p.s, x)
		return false
	}
	if pkgPathOf(cal) == modPath+"/token" && cal.Signature.Results().Len() == 1 && namedIs(cal.Signature.Results().At(0).Type(), "token", "Type") {
		fr.env[x] = &aval{tag: "ident", fn: cal}
		return false
	}
	if cal.Pkg == nil || cal.Pkg != fr.fn.Pkg || cal.Blocks == nil {
		lf.transfer(fr.cx, p.s, x)
		return false
	}
	// a function of the lexer package
	returnsToken := cal.Signature.Results().Len() == 1 && namedIs(cal.Signature.Results().At(0).Type(), "token", "Token")
	if ((acyclic(cal) && !producesLiteralByLoop(cal)) || returnsToken) && fr.depth < 4 {
		params := map[*ssa.Parameter]bset{}
		env := map[ssa.Value]*aval{}
		for pi, par := range cal.Params {
			if pi < len(x.Call.Args) {
				if v := w.ev(fr, x.Call.Args[pi]); v != nil {
					env[par] = v
				}
				if isByte(par.Type()) {
					params[par] = lf.valSet(p.s, fr.cx, x.Call.Args[pi])
				}
			}
		}
		sub := &lexFrame{fn: cal, cx: &lexCtx{fn: cal, params: params, before: map[ssa.Instruction]*lexState{}}, env: env, allocs: map[ssa.Value]*aval{}, depth: fr.depth + 1, site: site}
		// byte values do not carry over into the callee; aliases of the current byte are re-established by its own loads
		saved := p.s.vals
		savedAlias := p.s.alias
		p.s.vals, p.s.alias = map[ssa.Value]bset{}, map[ssa.Value]int{}
		buildsToken := false
		allInstrs(cal, func(_ *ssa.BasicBlock, _ int, in ssa.Instruction) {
			if al, ok := in.(*ssa.Alloc); ok && namedIs(al.Type(), "token", "Token") && al.Comment == "complit" {
				buildsToken = true
			}
		})
		w.walkFn(sub, p, func(q *lexPath, ret []*aval) {
			// continue the caller after the call, once per callee path
			fr2 := fr.fork()
			q.s.vals, q.s.alias = cloneVals(saved), map[ssa.Value]int{}
			if !lf.mayAdvance(cal) {
				q.s.alias = cloneAlias(savedAlias)
			}
			if buildsToken && q.builder == nil {
				q.builder = x
				q.curAtBuild = q.s.cur
			}
			if fr.depth == 0 && cal.Signature.Results().Len() == 1 && namedIs(cal.Signature.Results().At(0).Type(), "token", "Token") {
				q.site = x
			}
			switch len(ret) {
			case 0:
			case 1:
				if ret[0] != nil {
					fr2.env[x] = ret[0]
				}
			default:
				fr2.env[x] = &aval{tuple: ret}
			}
			w.walkInstrs(fr2, b, i+1, q, on, done)
		})
		return true
	}
	// a scanner (it loops): its effect on the byte state comes from its analysed context
	lf.transfer(fr.cx, p.s, x)
	if !p.s.live {
		w.problem("%s: the scanner %s has no analysed exit state for first byte %q", fnName(fr.fn), cal.Name(), string(rune(w.first)))
		return true
	}
	if lf.mayAdvance(cal) {
		p.open = true
		p.scanner = cal
		p.advScan = len(p.consumed)
	}
	if cal.Signature.Results().Len() >= 2 {
		fr.env[x] = &aval{tag: "scan", fn: cal}
	} else {
		fr.env[x] = &aval{tag: "scanlit", fn: cal}
	}
	return false
}

func cloneVals(m map[ssa.Value]bset) map[ssa.Value]bset {
	o := make(map[ssa.Value]bset, len(m))
	for k, v := range m {
		o[k] = v
	}
	return o
}

func cloneAlias(m map[ssa.Value]int) map[ssa.Value]int {
	o := make(map[ssa.Value]int, len(m))
	for k, v := range m {
		o[k] = v
	}
	return o
}

var globalStructMapCache = map[*ssa.Global]map[string]map[string]*aval{}

// globalStructMapTable: a package-level map literal whose values are struct literals of constants.
func globalStructMapTable(v ssa.Value) map[string]map[string]*aval {
	g := globalOf(v)
	if g == nil {
		return nil
	}
	if t, ok := globalStructMapCache[g]; ok {
		return t
	}
	globalStructMapCache[g] = nil
	init := g.Pkg.Func("init")
	if init == nil || !globalWrittenOnlyInInit(g) {
		return nil
	}
	var mk ssa.Value
	allInstrs(init, func(_ *ssa.BasicBlock, _ int, in ssa.Instruction) {
		if st, ok := in.(*ssa.Store); ok && st.Addr == ssa.Value(g) {
			mk = st.Val
		}
	})
	mm, ok := mk.(*ssa.MakeMap)
	if !ok {
		return nil
	}
	tbl := map[string]map[string]*aval{}
	good := true
	for _, r := range *mm.Referrers() {
		switch x := r.(type) {
		case *ssa.MapUpdate:
			k, ok1 := x.Key.(*ssa.Const)
			ld, ok2 := x.Value.(*ssa.UnOp)
			if !ok1 || !ok2 || k.Value == nil || ld.Op != token.MUL {
				good = false
				continue
			}
			al, ok := ld.X.(*ssa.Alloc)
			if !ok {
				good = false
				continue
			}
			flds := map[string]*aval{}
			for _, ar := range *al.Referrers() {
				fa, ok := ar.(*ssa.FieldAddr)
				if !ok {
					continue
				}
				for _, fr := range *fa.Referrers() {
					if st, ok := fr.(*ssa.Store); ok && st.Addr == ssa.Value(fa) {
						if kv, ok := unwrap(st.Val).(*ssa.Const); ok && kv.Value != nil {
							flds[fieldOfAddr(fa).Name()] = &aval{k: kv.Value}
						} else {
							good = false
						}
					}
				}
			}
			key := k.Value
			if key.Kind() != constant.String {
				key = constant.ToInt(key)
			}
			tbl[key.ExactString()] = flds
		case *ssa.Store, *ssa.DebugRef:
		default:
			good = false
		}
	}
	if !good {
		return nil
	}
	globalStructMapCache[g] = tbl
	return tbl
}

// lexOutcomes walks the dispatcher once per first byte.
func (c *Ctx) lexOutcomes() ([]lexOutcome, []string) {
	lf := c.lexFactsCached()
	if len(lf.problems) > 0 {
		return nil, lf.problems
	}
	w := &lexWalker{c: c, lf: lf, la: lexerAnchors(c), problems: map[string]bool{}}
	bcx := lf.contextsOf(lf.base)
	if len(bcx) == 0 || bcx[0].entry == nil || !bcx[0].entry.live {
		return nil, []string{"the dispatcher has no analysed entry state"}
	}
	entry := bcx[0].entry
	// contexts created while walking (never analysed) are dropped again
	norder := len(lf.order)
	defer func() {
		for _, k := range lf.order[norder:] {
			delete(lf.ctxs, k)
		}
		lf.order = lf.order[:norder]
	}()
	for fb := 0; fb < 256; fb++ {
		if !entry.cur.has(byte(fb)) {
			continue
		}
		w.first = byte(fb)
		st := &lexState{cur: setOf(byte(fb)), peek: entry.peek, noAdv: true, live: true, vals: map[ssa.Value]bset{}, alias: map[ssa.Value]int{}}
		fr := &lexFrame{fn: lf.base, cx: &lexCtx{fn: lf.base, params: map[*ssa.Parameter]bset{}, before: map[ssa.Instruction]*lexState{}}, env: map[ssa.Value]*aval{}, allocs: map[ssa.Value]*aval{}}
		w.walkFn(fr, &lexPath{s: st, advScan: -1}, func(p *lexPath, ret []*aval) {
			o := lexOutcome{first: byte(fb), consumed: p.consumed, open: p.open, scanner: p.scanner, builder: p.builder, site: p.site, advBeforeScan: p.advScan, curAtBuild: p.curAtBuild}
			if len(ret) == 1 && ret[0] != nil && ret[0].fields != nil {
				if lv := ret[0].fields["Literal"]; lv != nil {
					switch {
					case lv.k != nil && lv.k.Kind() == constant.String:
						o.lit, o.litOK = constant.StringVal(lv.k), true
					case lv.tag == "scanlit":
						o.litScan = true
					}
				}
				o.startLineAdv, o.startColAdv = -1, -1
				if sv := ret[0].fields["Start"]; sv != nil && sv.fields != nil {
					if lv := sv.fields["Line"]; lv != nil && lv.tag == "line" {
						o.startLineAdv = lv.adv
					}
					if cv := sv.fields["Column"]; cv != nil && cv.tag == "column" {
						o.startColAdv = cv.adv
					}
				}
				if tv := ret[0].fields["Type"]; tv != nil {
					switch {
					case tv.k != nil:
						if n, ok := constant.Int64Val(constant.ToInt(tv.k)); ok {
							o.typ, o.typOK = n, true
						}
					case tv.tag == "ident":
						o.ident = true
					case tv.tag == "scantyp":
						o.scanTyp = true
					}
				}
			}
			if !o.typOK && !o.ident && !o.scanTyp {
				w.problem("first byte %q: the type of the token returned on some path is not resolved", string(rune(fb)))
			}
			w.out = append(w.out, o)
		})
	}
	var probs []string
	for p := range w.problems {
		probs = append(probs, p)
	}
	sort.Strings(probs)
	return w.out, probs
}

func (c *Ctx) lexFactsCached() *lexFacts {
	if c.lfacts == nil {
		c.lfacts = c.lexFacts()
	}
	return c.lfacts
}

// lexemesFromOutcomes fills the lexeme table from the walked paths.
func (c *Ctx) lexemesFromOutcomes(lt *lexemeTable) []string {
	outs, probs := c.lexOutcomes()
	if len(probs) > 0 {
		return probs
	}
	tc := c.tokenConsts()
	illegal := tc.byName["ILLEGAL"]
	eof := tc.byName["EOF"]
	fixed := map[string]int64{}
	var ill []string
	seenIll := map[string]bool{}
	delims := map[byte]int64{}
	ident := false
	sites := map[*ssa.Call]bool{}
	nonPrintableIll := 0
	for _, o := range outs {
		if o.builder != nil {
			sites[o.builder] = true
		} else if o.site != nil {
			sites[o.site] = true
		}
		if o.ident {
			ident = true
			continue
		}
		if o.scanTyp {
			continue
		}
		if !o.typOK {
			continue
		}
		if o.open {
			// a delimited literal: the scanner is entered on the delimiter
			if o.typ != illegal && o.scanner != nil && resultBuilder(o.scanner) != nil {
				if old, dup := delims[o.first]; dup && old != o.typ {
					probs = append(probs, fmt.Sprintf("delimiter %q opens literals of two token types", string(rune(o.first))))
				}
				delims[o.first] = o.typ
			}
			continue
		}
		lex := make([]byte, 0, len(o.consumed))
		fixedLex := true
		for _, bs := range o.consumed {
			b, single := bs.single()
			if !single {
				fixedLex = false
				break
			}
			lex = append(lex, b)
		}
		if o.typ == eof {
			continue
		}
		if !fixedLex {
			if o.typ != illegal {
				probs = append(probs, fmt.Sprintf("first byte %q: a token of type %s is built from bytes the dispatcher did not test", string(rune(o.first)), tc.name(o.typ)))
			}
			continue
		}
		if o.typ == illegal {
			printable := len(lex) > 0
			for _, b := range lex {
				if b < 0x21 || b > 0x7e {
					printable = false
				}
			}
			if !printable {
				nonPrintableIll++
				continue
			}
			if !seenIll[string(lex)] {
				seenIll[string(lex)] = true
				ill = append(ill, string(lex))
			}
			continue
		}
		if old, dup := fixed[string(lex)]; dup && old != o.typ {
			probs = append(probs, fmt.Sprintf("lexeme %q produced with two token types", string(lex)))
		}
		fixed[string(lex)] = o.typ
	}
	if len(probs) > 0 {
		return probs
	}
	_ = nonPrintableIll
	lt.fixed, lt.illegal, lt.strDelims, lt.identType, lt.sites = fixed, ill, delims, ident, len(sites)
	return nil
}

func zeroAval(t types.Type) *aval {
	switch u := t.Underlying().(type) {
	case *types.Basic:
		return &aval{k: zeroOf(u)}
	case *types.Struct:
		return &aval{fields: map[string]*aval{}}
	case *types.Slice:
		return &aval{isList: true}
	}
	return &aval{}
}

// globalAval: the folded value of a package-level table whose initialiser is literal data (consteval.go), for
// tables the SSA-level readers do not understand (nested literals: rows holding lists of pairs).
func (c *Ctx) globalAval(v ssa.Value) *aval {
	g := globalOf(v)
	if g == nil || g.Pkg == nil {
		return nil
	}
	if c.gavals == nil {
		c.gavals = map[*ssa.Global]*aval{}
	}
	if a, ok := c.gavals[g]; ok {
		return a
	}
	c.gavals[g] = nil
	if !globalWrittenOnlyInInit(g) {
		return nil
	}
	short := shortPkg(g.Pkg.Pkg.Path())
	pk := c.Pkgs[short]
	if pk == nil {
		return nil
	}
	obj := pk.Types.Scope().Lookup(g.Name())
	if obj == nil {
		return nil
	}
	ce := &constEval{c: c, pkg: short, info: pk.TypesInfo}
	init := ce.packageVarInit(obj)
	if init == nil {
		return nil
	}
	cv, ok := ce.expr(map[types.Object]*cval{}, init)
	if !ok || cv == nil {
		return nil
	}
	a := cvalToAval(cv)
	c.gavals[g] = a
	return a
}

func cvalToAval(v *cval) *aval {
	if v == nil {
		return nil
	}
	switch {
	case v.k != nil:
		return &aval{k: v.k}
	case v.flds != nil:
		out := &aval{fields: map[string]*aval{}}
		for k, f := range v.flds {
			out.fields[k] = cvalToAval(f)
		}
		return out
	case v.isMap:
		out := &aval{mapv: map[string]*aval{}}
		for k, e := range v.mp {
			out.mapv[k] = cvalToAval(e)
		}
		return out
	case v.list != nil:
		out := &aval{isList: true}
		for _, e := range v.list {
			out.list = append(out.list, cvalToAval(e))
		}
		return out
	}
	return &aval{}
}
