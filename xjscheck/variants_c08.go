package main

func init() {
	a := "ast/ast.go"
	addVariants(
		variant{Prop: "C08", Name: "compound-mapping-before-space-again", File: a, Old: "\tcw.WriteSpace()\n\tcw.WriteLeadingComments(cae.Token.LeadingComments)\n\tcw.AddMapping(cae.Token.Start)\n\tcw.WriteString(cae.Operator)", New: "\tcw.WriteLeadingComments(cae.Token.LeadingComments)\n\tcw.AddMapping(cae.Token.Start)\n\tcw.WriteSpace()\n\tcw.WriteString(cae.Operator)", Rule: "R8.1", Construct: "CompoundAssignmentExpression"},
		variant{Prop: "C08", Name: "postfix-mapping-before-operand", File: a, Old: "\t\tpe.Left.WriteTo(cw)\n\t}\n\tcw.AddMapping(pe.Token.Start)\n\tcw.WriteString(pe.Operator)", New: "\t\tpe.Left.WriteTo(cw)\n\t}\n\tcw.WriteString(pe.Operator)", More: []edit{{File: a, Old: "\tcw.WriteLeadingComments(pe.Token.LeadingComments)\n\t// Left side needs parens", New: "\tcw.WriteLeadingComments(pe.Token.LeadingComments)\n\tcw.AddMapping(pe.Token.Start)\n\t// Left side needs parens"}}, Rule: "R8.1", Construct: "PostfixExpression"},
		variant{Prop: "C08", Name: "while-mapping-uses-end", File: a, Old: "\tcw.AddMapping(ws.Token.Start)", New: "\tcw.AddMapping(ws.Token.End)", Rule: "R8.1", Construct: "WhileStatement"},
		variant{Prop: "C08", Name: "block-maps-closing-brace-token-on-opening", File: a, Old: "\tcw.AddMapping(bs.Token.Start)\n\tcw.WriteRune('{')", New: "\tcw.AddMapping(bs.RBrace.Start)\n\tcw.WriteRune('{')", Rule: "R8.1", Construct: "BlockStatement"},
		variant{Prop: "C08", Name: "null-literal-prints-undefined", File: a, Old: "\tcw.WriteString(\"null\")", New: "\tcw.WriteString(\"undefined\")", Rule: "R8.1", Construct: "NullLiteral"},
		variant{Prop: "C08", Name: "identifier-name-from-token-literal", File: a, Old: "\tcw.AddNamedMapping(i.Token.Start.Line, i.Token.Start.Column, i.Value)", New: "\tcw.AddNamedMapping(i.Token.Start.Line, i.Token.Start.Column, i.Token.Literal)", Rule: "R8.2", Construct: "named mapping"},
		variant{Prop: "C08", Name: "function-name-written-directly", File: a, Old: "\tcw.WriteString(\"function \")\n\tfd.Name.WriteTo(cw)", New: "\tcw.WriteString(\"function \")\n\tcw.WriteString(fd.Name.Value)", Rule: "R8.2", Construct: "Identifier.Value"},
		variant{Prop: "C08", Name: "indent-written-around-mapper", File: "ast/code_writer_format.go", Old: "\t\tcw.emitString(indent)", New: "\t\tcw.Builder.WriteString(indent)", Rule: "R8.3", Construct: "writeIndent"},
		variant{Prop: "C08", Name: "mapping-recorded-before-flush", File: "ast/code_writer_mapping.go", Old: "\t// pending layout belongs in front of the token the mapping is for\n\tcw.flushPending()\n", New: "", Rule: "R8.3", Construct: "AddMapping"},
		variant{Prop: "C08", Name: "advance-column-can-go-back", File: "sourcemap/sourcemap.go", Old: "\tm.generatedColumn += n\n", New: "\tm.generatedColumn -= n\n", Rule: "R8.5", Construct: "AdvanceColumn"},
		variant{Prop: "C08", Name: "mapping-recorded-one-column-late", File: "sourcemap/sourcemap.go", Old: "\tm.mappings = append(m.mappings, Mapping{\n\t\tGeneratedLine:   m.generatedLine,\n\t\tGeneratedColumn: m.generatedColumn,\n\t\tSourceLine:      sourceLine,\n\t\tSourceColumn:    sourceColumn,\n\t})", New: "\tm.mappings = append(m.mappings, Mapping{\n\t\tGeneratedLine:   m.generatedLine,\n\t\tGeneratedColumn: m.generatedColumn + 1,\n\t\tSourceLine:      sourceLine,\n\t\tSourceColumn:    sourceColumn,\n\t})", Rule: "R8.5", Construct: "AddMapping"},
		variant{Prop: "C08", Name: "benign-if-keyword-with-trailing-space", File: a, Old: "\tcw.WriteString(\"if\")\n\tcw.WriteSpace()\n\tcw.WriteRune('(')\n\tifs.Condition", New: "\tcw.WriteString(\"if\")\n\tcw.WriteSpace()\n\tcw.WriteString(\"(\")\n\tifs.Condition", Benign: true},
	)
}
