#!/usr/bin/env python3
"""Validate a seeded change and run the xjscheck rules against it.

usage: seedcheck.py <seed-dir> [--props C01,C02,...] [--keep]

<seed-dir> holds patch.diff and demo_test.go (first line: `// place in: <dir>`).
Everything happens in a scratch worktree of /repo under $TMPDIR (default /tmp/sv), never in /repo itself:
  1. demo passes on the clean tree, 2. patch applies, builds, the existing suite passes, 3. demo fails with the patch,
  4. every registered property's quick check is run against the patched tree (-repo <scratch>), with evidence and
     reports written to a scratch verif directory, and the rules that fire are listed.
Prints a JSON summary on stdout. The scratch worktree is removed afterwards.
"""
import json, os, re, shutil, subprocess, sys, tempfile
XJSBIN = os.environ.get("XJSCHECK_BIN") or os.path.join(os.path.dirname(os.path.dirname(os.path.abspath(__file__))), "bin", "xjscheck")

VERIF = os.path.dirname(os.path.dirname(os.path.abspath(__file__)))
ENV = dict(os.environ, GOFLAGS="-mod=mod", GOPROXY="off", GOSUMDB="off", GOTOOLCHAIN="local")
ENV.pop("GOWORK", None)


def sh(cmd, cwd=None, timeout=900):
    p = subprocess.run(cmd, shell=True, cwd=cwd, env=ENV, stdout=subprocess.PIPE, stderr=subprocess.STDOUT, text=True, timeout=timeout)
    return p.returncode, p.stdout


def main():
    args = [a for a in sys.argv[1:] if not a.startswith("--")]
    seed = os.path.abspath(args[0])
    props = None
    for a in sys.argv[1:]:
        if a.startswith("--props"):
            props = a.split("=", 1)[1].split(",")
    if props is None:
        m = json.load(open(os.path.join(VERIF, "MANIFEST.json")))
        props = [c["property_id"] for c in m["checks"]]
    base = os.environ.get("TMPDIR", "/tmp") + "/sv"
    os.makedirs(base, exist_ok=True)
    wt = tempfile.mkdtemp(prefix="wt_", dir=base)
    os.rmdir(wt)
    vout = tempfile.mkdtemp(prefix="verif_", dir=base)
    res = {"seed": seed, "props": props}
    try:
        rc, out = sh(f"git -C /repo worktree add --detach {wt} HEAD")
        if rc != 0:
            res["error"] = "worktree: " + out
            return res
        # a seed written against an evolved tree names its base patch (relative to /verif) in the file `base`
        basef = os.path.join(seed, "base")
        if os.path.exists(basef):
            bp = os.path.join(VERIF, open(basef).read().strip())
            rc, out = sh(f"git apply {bp}", cwd=wt)
            res["base_patch"] = os.path.relpath(bp, VERIF)
            if rc != 0:
                res["error"] = "base patch: " + out[-500:]
                return res
        demo = os.path.join(seed, "demo_test.go")
        first = open(demo).readline()
        m = re.match(r"//\s*place in:\s*(\S+)", first)
        place = m.group(1).strip("/") if m else "."
        dst = os.path.join(wt, place, "zz_seeded_demo_test.go")
        shutil.copy(demo, dst)
        rc, out = sh(f"go test -vet=off -count=1 -run TestSeededDemo ./{place}/", cwd=wt)
        res["demo_passes_clean"] = rc == 0
        if rc != 0:
            res["demo_clean_output"] = out[-2000:]
        os.remove(dst)
        rc, out = sh(f"git apply {os.path.join(seed, 'patch.diff')}", cwd=wt)
        res["patch_applies"] = rc == 0
        if rc != 0:
            res["patch_output"] = out[-2000:]
            return res
        res["touched"] = sorted({l[6:].strip() for l in open(os.path.join(seed, "patch.diff")) if l.startswith("+++ b/")})
        res["touches_tests"] = any(t.endswith("_test.go") or "testdata" in t for t in res["touched"])
        rc, out = sh("go build ./... && go test -vet=off -count=1 ./...", cwd=wt)
        res["suite_passes_with_patch"] = rc == 0
        if rc != 0:
            res["suite_output"] = out[-3000:]
        rc2, out2 = sh("go test -vet=off -count=1 -tags integration ./... 2>&1 | tail -15", cwd=wt)
        res["integration_tagged_suite"] = "FAIL" not in out2
        shutil.copy(demo, dst)
        rc, out = sh(f"go test -vet=off -count=1 -run TestSeededDemo ./{place}/", cwd=wt)
        res["demo_fails_with_patch"] = rc != 0
        res["demo_output"] = out[-1500:]
        os.remove(dst)
        # run the checks against the patched tree
        shutil.copy(os.path.join(VERIF, "known_findings.json"), vout)
        fired = {}
        for p in props:
            rc, out = sh(f"{XJSBIN} -property {p} -tier quick -repo {wt} -verif {vout}", timeout=600)
            lines = [l.strip() for l in out.splitlines() if re.match(r"\s+(VIOLATED|UNRESOLVED) ", l)]
            if rc != 0:
                fired[p] = lines or [out[-800:]]
        res["fired"] = fired
        res["caught"] = bool(fired)
        return res
    finally:
        sh(f"git -C /repo worktree remove --force {wt}")
        shutil.rmtree(wt, ignore_errors=True)
        shutil.rmtree(vout, ignore_errors=True)
        sh("git -C /repo worktree prune")


if __name__ == "__main__":
    r = main()
    print(json.dumps(r, indent=1))
