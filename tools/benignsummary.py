#!/usr/bin/env python3
"""Summarises benign/*/result.json (written by tools/benignbatch.sh): how many kept refactorings are silent, which alarm."""
import json, os, glob
V = os.path.dirname(os.path.dirname(os.path.abspath(__file__)))
tot = sil = 0
alarm = []
for d in sorted(glob.glob(os.path.join(V, 'benign', 'C*'))):
    try:
        r = json.load(open(os.path.join(d, 'result.json')))
    except Exception:
        continue
    tot += 1
    if r.get('silent'):
        sil += 1
    else:
        rules = sorted({(p + ':' + l.split()[1]) for p, ls in r.get('fired', {}).items() for l in ls if l.split()[:1] and l.split()[0] in ('VIOLATED', 'UNRESOLVED')})
        alarm.append((os.path.basename(d), rules))
print('%d refactorings, %d silent, %d alarm' % (tot, sil, len(alarm)))
for a, rules in alarm:
    print(' ', a, ' '.join(rules[:8]))
