#!/bin/sh
# usage: seedbatch.sh <dir-with-seed-subdirs>...   — runs seedcheck.py on every directory holding a patch.diff (4 at a time)
V=$(cd "$(dirname "$0")/.." && pwd)
find "$@" -name patch.diff | sort | xargs -n1 dirname | xargs -P 4 -I{} sh -c "python3 $V/tools/seedcheck.py {} > {}/result.json 2>{}/result.err"
for d in $(find "$@" -name patch.diff | sort | xargs -n1 dirname); do
python3 - "$d" <<'PY'
import json,sys
d=sys.argv[1]
try:
    r=json.load(open(d+'/result.json'))
except Exception as e:
    print(d,'NO RESULT',e); sys.exit()
ok=all(r.get(k) for k in ['demo_passes_clean','patch_applies','suite_passes_with_patch','demo_fails_with_patch']) and not r.get('touches_tests')
print(d.split('/out/')[-1] if '/out/' in d else d, 'VALID' if ok else 'INVALID', 'integ-ok' if r.get('integration_tagged_suite') else 'integ-FAIL', 'CAUGHT' if r.get('caught') else 'missed', ','.join(r.get('touched',[])))
for p,l in r.get('fired',{}).items():
    for x in l[:2]: print('      ',p,x[:200])
PY
done
