#!/usr/bin/env python3
"""Fast regression over stored seeds: for every seeded/<id> the patch is applied in a scratch worktree of /repo (removed
afterwards) and the quick checks are run against it until one fires — the properties that detected the seed last time
first. No test suite is run (the seed was validated when it was stored). Prints one line per seed and writes
seeded/<id>/quick.json. usage: quickregress.py [-j N] <seed-dir>..."""
import json, os, re, shutil, subprocess, sys, tempfile
from concurrent.futures import ThreadPoolExecutor
V = os.path.dirname(os.path.dirname(os.path.abspath(__file__)))
BIN = os.environ.get("XJSCHECK_BIN") or os.path.join(V, "bin", "xjscheck")
ENV = dict(os.environ, GOFLAGS="-mod=mod", GOPROXY="off", GOSUMDB="off", GOTOOLCHAIN="local")
ENV.pop("GOWORK", None)
ALL = ["C%02d" % i for i in range(1, 17)]


def sh(cmd, cwd=None):
    p = subprocess.run(cmd, shell=True, cwd=cwd, env=ENV, stdout=subprocess.PIPE, stderr=subprocess.STDOUT, text=True, timeout=900)
    return p.returncode, p.stdout


def one(d):
    d = os.path.abspath(d)
    sid = os.path.basename(d)
    first = []
    try:
        m = json.load(open(os.path.join(d, "meta.json")))
        first = list(m.get("detected_by", {}).keys())
        if not first:
            first = [m.get("breaks_property")]
    except Exception:
        pass
    order = [p for p in first if p in ALL] + [p for p in ALL if p not in first]
    base = "/tmp/sv"
    os.makedirs(base, exist_ok=True)
    wt = tempfile.mkdtemp(prefix="wq_", dir=base)
    os.rmdir(wt)
    vout = tempfile.mkdtemp(prefix="vq_", dir=base)
    res = {"id": sid}
    try:
        sh(f"git -C /repo worktree add --detach {wt} HEAD")
        if os.path.exists(os.path.join(d, "base")):
            sh(f"git apply {os.path.join(V, open(os.path.join(d, 'base')).read().strip())}", cwd=wt)
        rc, out = sh(f"git apply {d}/patch.diff", cwd=wt)
        res["patch_applies"] = rc == 0
        if rc != 0:
            res["patch_output"] = out[-500:]
            return res
        shutil.copy(os.path.join(V, "known_findings.json"), vout)
        res["caught"] = False
        for p in order:
            rc, out = sh(f"{BIN} -property {p} -tier quick -repo {wt} -verif {vout}")
            if rc != 0:
                lines = [l.strip() for l in out.splitlines() if re.match(r"\s+(VIOLATED|UNRESOLVED) ", l)]
                res["caught"] = True
                res["by"] = p
                res["lines"] = [l[:300] for l in lines[:3]] or [out[-300:]]
                break
        return res
    finally:
        sh(f"git -C /repo worktree remove --force {wt}")
        shutil.rmtree(wt, ignore_errors=True)
        shutil.rmtree(vout, ignore_errors=True)
        json.dump(res, open(os.path.join(d, "quick.json"), "w"), indent=1)


def main():
    args = sys.argv[1:]
    j = 6
    if args and args[0] == "-j":
        j = int(args[1])
        args = args[2:]
    with ThreadPoolExecutor(j) as ex:
        for r in ex.map(one, args):
            tag = "NOAPPLY" if not r.get("patch_applies") else ("caught " + r.get("by", "")) if r.get("caught") else "MISSED"
            print(r["id"], tag, (r.get("lines") or [""])[0][:160], flush=True)
    sh("git -C /repo worktree prune")


if __name__ == "__main__":
    main()
