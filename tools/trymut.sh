#!/bin/sh
# usage: trymut.sh <patch.diff> <binary> <property>... — run properties against a scratch worktree with the patch applied
P=$1; B=$2; shift 2
W=/tmp/sv/try_$$; mkdir -p /tmp/sv /tmp/vt; cp /verif/known_findings.json /tmp/vt/
git -C /repo worktree add --detach $W HEAD >/dev/null 2>&1 || exit 2
(cd $W && git apply "$P") || { echo "patch does not apply"; git -C /repo worktree remove --force $W; exit 2; }
for p in "$@"; do $B -property $p -tier quick -repo $W -verif /tmp/vt 2>&1 | grep -E "^\s+(VIOLATED|UNRESOLVED)|^property=" | cut -c1-420; done
git -C /repo worktree remove --force $W; git -C /repo worktree prune
