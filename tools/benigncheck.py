#!/usr/bin/env python3
"""Run every registered quick check against a behaviour-preserving refactoring (patch.diff in <dir>).
The patch is applied in a scratch worktree of /repo; the suite (plain and -tags integration) must pass; every check
that exits non-zero is a FALSE-ALARM candidate to be triaged (widen the accepted idioms, or document the fail-closed
limit). Prints a JSON summary."""
import json, os, re, shutil, subprocess, sys, tempfile
XJSBIN = os.environ.get("XJSCHECK_BIN") or os.path.join(os.path.dirname(os.path.dirname(os.path.abspath(__file__))), "bin", "xjscheck")
VERIF = os.path.dirname(os.path.dirname(os.path.abspath(__file__)))
ENV = dict(os.environ, GOFLAGS="-mod=mod", GOPROXY="off", GOSUMDB="off", GOTOOLCHAIN="local")
ENV.pop("GOWORK", None)
def sh(cmd, cwd=None, timeout=900):
    p = subprocess.run(cmd, shell=True, cwd=cwd, env=ENV, stdout=subprocess.PIPE, stderr=subprocess.STDOUT, text=True, timeout=timeout)
    return p.returncode, p.stdout
def main():
    d = os.path.abspath(sys.argv[1])
    m = json.load(open(os.path.join(VERIF, "MANIFEST.json")))
    props = [c["property_id"] for c in m["checks"]]
    base = os.environ.get("TMPDIR", "/tmp") + "/sv"
    os.makedirs(base, exist_ok=True)
    wt = tempfile.mkdtemp(prefix="wt_", dir=base); os.rmdir(wt)
    vout = tempfile.mkdtemp(prefix="verif_", dir=base)
    res = {"dir": d}
    try:
        rc, out = sh(f"git -C /repo worktree add --detach {wt} HEAD")
        rc, out = sh(f"git apply {os.path.join(d,'patch.diff')}", cwd=wt)
        res["patch_applies"] = rc == 0
        if rc != 0:
            res["patch_output"] = out[-1500:]; return res
        rc, out = sh("git status --short", cwd=wt)
        res["touched"] = [l[3:] for l in out.splitlines()]
        rc, out = sh("go build ./... && go test -vet=off -count=1 ./... && go test -vet=off -count=1 -tags integration ./...", cwd=wt)
        res["suites_pass"] = rc == 0
        if rc != 0:
            res["suite_output"] = out[-2000:]
        shutil.copy(os.path.join(VERIF, "known_findings.json"), vout)
        fired = {}
        for p in props:
            rc, out = sh(f"{XJSBIN} -property {p} -tier quick -repo {wt} -verif {vout}", timeout=600)
            lines = [l.strip() for l in out.splitlines() if re.match(r"\s+(VIOLATED|UNRESOLVED) ", l)]
            if rc != 0:
                fired[p] = lines or [out[-600:]]
        res["fired"] = fired
        res["silent"] = not fired
        return res
    finally:
        sh(f"git -C /repo worktree remove --force {wt}")
        shutil.rmtree(wt, ignore_errors=True); shutil.rmtree(vout, ignore_errors=True)
        sh("git -C /repo worktree prune")
if __name__ == "__main__":
    print(json.dumps(main(), indent=1))
