#!/usr/bin/env python3
"""Regenerates the catch matrix of DESIGN.md §8 (between the markers <!-- matrix:begin --> and <!-- matrix:end -->)
from seeded/*/meta.json. Usage: tools/catchmatrix.py [--print]"""
import json, os, re, sys, glob
V = os.path.dirname(os.path.dirname(os.path.abspath(__file__)))
def key(d):
    m = re.match(r'C(\d+)-(?:r(\d)-)?(\d+)$', d)
    return (int(m.group(1)), int(m.group(2) or 1), int(m.group(3))) if m else (99, 9, 0)
rows, undetected, controls = [], [], []
for d in sorted(os.listdir(os.path.join(V, 'seeded')), key=key):
    p = os.path.join(V, 'seeded', d, 'meta.json')
    if not os.path.exists(p):
        continue
    m = json.load(open(p))
    if 'status_on_current_tree' in m:
        controls.append(d)
        rows.append('| %s | %s | control (no longer breaking) | silent |' % (d, m.get('change', '')[:110]))
        continue
    by = []
    for prop, ls in sorted(m.get('detected_by', {}).items()):
        rules = []
        for l in ls:
            mm = re.search(r'(R\d+\.\d+[a-z]?)', l)
            if mm:
                r = mm.group(1)
                if l.startswith('UNRESOLVED'):
                    r += '(fail-closed)'
                if r not in rules and r.replace('(fail-closed)', '') not in [x.replace('(fail-closed)', '') for x in rules]:
                    rules.append(r)
        if rules:
            by.append('%s:%s' % (prop, '/'.join(rules)))
    det = 'yes' if m.get('detected') else '**no**'
    if not m.get('detected'):
        undetected.append(d)
    rows.append('| %s | %s | %s | %s |' % (d, m.get('change', '')[:110], det, '; '.join(by)))
table = '| seed | change | detected | by |\n|---|---|---|---|\n' + '\n'.join(rows)
summary = '%d kept changes: %d breaking (%d detected, undetected: %s), %d negative control(s): %s.' % (
    len(rows), len(rows) - len(controls), len(rows) - len(controls) - len(undetected), ', '.join(undetected) or 'none', len(controls), ', '.join(controls) or 'none')
if '--print' in sys.argv:
    print(summary); print(table); sys.exit()
p = os.path.join(V, 'DESIGN.md')
s = open(p).read()
b, e = '<!-- matrix:begin -->', '<!-- matrix:end -->'
if b in s and e in s:
    s = s[:s.index(b) + len(b)] + '\n' + summary + '\n\n' + table + '\n' + s[s.index(e):]
    open(p, 'w').write(s)
    print('updated:', summary)
else:
    print('markers not found in DESIGN.md'); print(summary)
