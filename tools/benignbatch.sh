#!/bin/sh
# usage: benignbatch.sh <dir>... — benigncheck.py on every directory holding a patch.diff (4 at a time), then a summary
V=$(cd "$(dirname "$0")/.." && pwd)
find "$@" -name patch.diff | sort | xargs -n1 dirname | xargs -P 4 -I{} sh -c "python3 $V/tools/benigncheck.py {} > {}/result.json 2>{}/result.err"
for d in $(find "$@" -name patch.diff | sort | xargs -n1 dirname); do
python3 - "$d" <<'PY'
import json,sys
d=sys.argv[1]
try: r=json.load(open(d+'/result.json'))
except Exception as e: print(d,'NO RESULT',e); sys.exit()
tag = d.split('/out/')[-1]
print(tag, 'applies' if r.get('patch_applies') else 'NO-APPLY', 'suites-ok' if r.get('suites_pass') else 'SUITES-FAIL', 'silent' if r.get('silent') else 'ALARM', ','.join(r.get('touched',[])))
for p,l in r.get('fired',{}).items():
    for x in l[:3]: print('      ',p,x[:210])
PY
done
