#!/bin/sh
# usage: dumpobl.sh <binary> <property> <rule> [repo] — print every obligation of one rule (development aid)
B=$1; P=$2; R=$3; REPO=${4:-/repo}
mkdir -p /tmp/vt; cp /verif/known_findings.json /tmp/vt/
XJSCHECK_DUMP=/tmp/vt/dump.json $B -property $P -tier quick -repo $REPO -verif /tmp/vt >/dev/null 2>&1
python3 - "$R" <<'PY'
import json,sys
for o in json.load(open('/tmp/vt/dump.json')):
    if o.get('rule')==sys.argv[1]: print(o.get('status'),'|',o.get('construct'),'|',o.get('pos'),'|',(o.get('detail') or '')[:160])
PY
