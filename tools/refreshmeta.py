#!/usr/bin/env python3
"""Refreshes detected / detected_by in seeded/*/meta.json from the result.json the last tools/seedbatch.sh run left
next to it; for rounds 4 and 5 (stored with their first-run result) that first result is kept in `first_run_detected`."""
import json, os, sys
V = os.path.dirname(os.path.dirname(os.path.abspath(__file__)))
n = 0
for d in sorted(os.listdir(os.path.join(V, 'seeded'))):
    mp = os.path.join(V, 'seeded', d, 'meta.json')
    rp = os.path.join(V, 'seeded', d, 'result.json')
    if not (os.path.exists(mp) and os.path.exists(rp)):
        continue
    m = json.load(open(mp))
    try:
        r = json.load(open(rp))
    except Exception:
        continue
    if 'status_on_current_tree' in m:
        continue
    if not r.get('patch_applies'):
        continue
    if 'first_run_detected' not in m and ('-r4-' in d or '-r5-' in d):
        m['first_run_detected'] = bool(m.get('detected'))
    m['detected'] = bool(r.get('caught'))
    m['detected_by'] = {p: [l.split(' @ ')[0] for l in ls[:4]] for p, ls in r.get('fired', {}).items()}
    json.dump(m, open(mp, 'w'), indent=1, ensure_ascii=False)
    n += 1
print('refreshed', n)
