#!/bin/sh
# usage: tryp.sh <dir-with-patch.diff> [property...]  — applies the patch in a scratch worktree of /repo (removed afterwards)
# and prints what the given quick checks (default: all) report against it. No test suite is run.
V=$(cd "$(dirname "$0")/.." && pwd)
D=$(cd "$1" && pwd); shift
PROPS=${*:-C01 C02 C03 C04 C05 C06 C07 C08 C09 C10 C11 C12 C13 C14 C15 C16}
W=$(mktemp -d /tmp/tryp.XXXXXX); rmdir $W
git -C /repo worktree add --detach $W HEAD >/dev/null 2>&1
( cd $W && git apply $D/patch.diff ) || { echo "patch does not apply"; git -C /repo worktree remove --force $W; exit 2; }
O=$(mktemp -d /tmp/trypv.XXXXXX); cp $V/known_findings.json $O/
BIN=${XJSCHECK_BIN:-$V/bin/xjscheck}
for p in $PROPS; do
  out=$($BIN -property $p -tier quick -repo $W -verif $O 2>&1); rc=$?
  echo "$out" | grep -E '^\s+(VIOLATED|UNRESOLVED) ' | sed "s/^ */  $p /" | cut -c1-${COLS:-400}
  [ $rc -ne 0 ] && [ -z "$(echo "$out" | grep -E '^\s+(VIOLATED|UNRESOLVED) ')" ] && echo "$out" | tail -5
done
git -C /repo worktree remove --force $W >/dev/null 2>&1; rm -rf $W $O; git -C /repo worktree prune
