#!/usr/bin/env python3
"""Copies validated seeds from a work directory into /verif/seeded/<prop>-<k>/ with a meta.json built from seedcheck's result."""
import json, os, shutil, sys
V = os.path.dirname(os.path.dirname(os.path.abspath(__file__)))
src = sys.argv[1]
needs = json.load(open(sys.argv[2]))
infix = sys.argv[3] if len(sys.argv) > 3 else ""
for prop in sorted(os.listdir(src)):
    for k in sorted(os.listdir(os.path.join(src, prop))):
        d = os.path.join(src, prop, k)
        if not os.path.exists(os.path.join(d, "result.json")):
            continue
        r = json.load(open(os.path.join(d, "result.json")))
        valid = all(r.get(x) for x in ["demo_passes_clean", "patch_applies", "suite_passes_with_patch", "demo_fails_with_patch"]) and not r.get("touches_tests")
        if not valid:
            print("skip (not validated):", prop, k)
            continue
        sid = "%s-%s%s" % (prop, infix, k)
        out = os.path.join(V, "seeded", sid)
        os.makedirs(out, exist_ok=True)
        for f in ["patch.diff", "demo_test.go", "notes.md"]:
            shutil.copy(os.path.join(d, f), os.path.join(out, f))
        if os.path.exists(os.path.join(d, "base")):
            shutil.copy(os.path.join(d, "base"), os.path.join(out, "base"))
        first = open(os.path.join(d, "demo_test.go")).readline().strip()
        n = needs.get(sid, {})
        fired = {p: [l.split(" @ ")[0] for l in ls[:4]] for p, ls in r.get("fired", {}).items()}
        meta = {
            "id": sid,
            "breaks_property": prop,
            "origin": "independent sub-agent given only the property text and a scratch worktree of /repo (nothing from /verif)",
            "change": n.get("change", ""),
            "needs_to_manifest": n.get("needs", ""),
            "files_touched": r.get("touched", []),
            "demonstration": {"file": "demo_test.go", "place": first, "run": "go test -vet=off -count=1 -run TestSeededDemo ./<dir>/"},
            "confirmed_by_me": {
                "how": "tools/seedcheck.py in a scratch worktree of /repo (removed afterwards): demo on the clean tree, git apply, go build ./... && go test -vet=off -count=1 ./..., the same with -tags integration, demo with the patch, then every registered quick check with -repo <scratch>",
                "demo_passes_without_change": r.get("demo_passes_clean"),
                "patch_applies": r.get("patch_applies"),
                "existing_suite_passes_with_change": r.get("suite_passes_with_patch"),
                "integration_tagged_suite_passes_with_change": r.get("integration_tagged_suite"),
                "demo_fails_with_change": r.get("demo_fails_with_patch"),
            },
            "detected": bool(r.get("caught")),
            "detected_by": fired,
            "note": n.get("note", ""),
        }
        json.dump(meta, open(os.path.join(out, "meta.json"), "w"), indent=1, ensure_ascii=False)
        print("stored", sid, "detected" if meta["detected"] else "MISSED")
